use memchr::memmem;

fn main() {
    // 33-byte needle (> 32, so: Two-Way + vector prefilter). Rare bytes at 0 and 1.
    let mut needle = vec![0x1eu8, 0x1f];
    needle.extend(std::iter::repeat(b'e').take(30));
    needle.push(b'g');
    assert_eq!(needle.len(), 33);
    // Period-12 haystack: the rare pair, then filler that is != 'e' but equal to it mod 64
    // (passes Two-Way's approximate byte set, fails the first real comparison).
    let period: [u8; 12] = [0x1e, 0x1f, b'%', b'%', b'%', b'%', b'%', b'%', b'%', b'%', b'%', b'%'];
    let calls: u64 = std::env::args().nth(1).map(|s| s.parse().unwrap()).unwrap_or((1u64 << 29) + 64);
    let len = (calls as usize) * 12 + 64;
    eprintln!("haystack bytes: {}", len);
    let mut h = vec![0u8; len];
    for chunk in h.chunks_mut(12) {
        let n = chunk.len();
        chunk.copy_from_slice(&period[..n]);
    }
    let finder = memmem::Finder::new(&needle);
    let t = std::time::Instant::now();
    let r = finder.find(&h);
    eprintln!("result {:?} in {:?}", r, t.elapsed());
}
