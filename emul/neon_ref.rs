//! REFERENCE model of the aarch64 NEON intrinsics memchr uses: plain lane-wise
//! Rust over byte arrays, little endian. This is the trusted definition; the
//! fast bit-vector model in neon.rs is proved equivalent to it by the
//! `emul_equiv_*` harnesses on every run.


pub mod aarch64_ref {
    #[derive(Clone, Copy, Debug)]
    #[repr(C, align(16))]
    pub struct uint8x16_t(pub [u8; 16]);
    #[derive(Clone, Copy, Debug)]
    #[repr(C, align(16))]
    pub struct uint16x8_t(pub [u16; 8]);
    #[derive(Clone, Copy, Debug)]
    #[repr(C, align(8))]
    pub struct uint8x8_t(pub [u8; 8]);
    #[derive(Clone, Copy, Debug)]
    #[repr(C, align(8))]
    pub struct uint64x1_t(pub [u64; 1]);
    #[derive(Clone, Copy, Debug)]
    #[repr(C, align(16))]
    pub struct uint64x2_t(pub [u64; 2]);

    #[inline(always)]
    pub unsafe fn vdupq_n_u8(b: u8) -> uint8x16_t {
        uint8x16_t([b; 16])
    }

    /// Unaligned 16-byte load.
    #[inline(always)]
    pub unsafe fn vld1q_u8(p: *const u8) -> uint8x16_t {
        uint8x16_t(core::ptr::read_unaligned(p as *const [u8; 16]))
    }

    #[inline(always)]
    pub unsafe fn vceqq_u8(a: uint8x16_t, b: uint8x16_t) -> uint8x16_t {
        let mut o = [0u8; 16];
        let mut i = 0;
        while i < 16 {
            o[i] = if a.0[i] == b.0[i] { 0xFF } else { 0 };
            i += 1;
        }
        uint8x16_t(o)
    }

    #[inline(always)]
    pub unsafe fn vandq_u8(a: uint8x16_t, b: uint8x16_t) -> uint8x16_t {
        let mut o = [0u8; 16];
        let mut i = 0;
        while i < 16 {
            o[i] = a.0[i] & b.0[i];
            i += 1;
        }
        uint8x16_t(o)
    }

    #[inline(always)]
    pub unsafe fn vorrq_u8(a: uint8x16_t, b: uint8x16_t) -> uint8x16_t {
        let mut o = [0u8; 16];
        let mut i = 0;
        while i < 16 {
            o[i] = a.0[i] | b.0[i];
            i += 1;
        }
        uint8x16_t(o)
    }

    /// Pairwise maximum: lanes 0..8 from adjacent pairs of `a`, 8..16 from `b`.
    #[inline(always)]
    pub unsafe fn vpmaxq_u8(a: uint8x16_t, b: uint8x16_t) -> uint8x16_t {
        let mut o = [0u8; 16];
        let mut i = 0;
        while i < 8 {
            let (x, y) = (a.0[2 * i], a.0[2 * i + 1]);
            o[i] = if x > y { x } else { y };
            let (x, y) = (b.0[2 * i], b.0[2 * i + 1]);
            o[8 + i] = if x > y { x } else { y };
            i += 1;
        }
        uint8x16_t(o)
    }

    #[inline(always)]
    pub unsafe fn vreinterpretq_u16_u8(a: uint8x16_t) -> uint16x8_t {
        let mut o = [0u16; 8];
        let mut i = 0;
        while i < 8 {
            o[i] = u16::from_le_bytes([a.0[2 * i], a.0[2 * i + 1]]);
            i += 1;
        }
        uint16x8_t(o)
    }

    /// Shift right narrow by `n` (a constant at every call site).
    #[inline(always)]
    pub unsafe fn vshrn_n_u16(a: uint16x8_t, n: i32) -> uint8x8_t {
        let mut o = [0u8; 8];
        let mut i = 0;
        while i < 8 {
            o[i] = (a.0[i] >> (n as u32)) as u8;
            i += 1;
        }
        uint8x8_t(o)
    }

    #[inline(always)]
    pub unsafe fn vreinterpret_u64_u8(a: uint8x8_t) -> uint64x1_t {
        uint64x1_t([u64::from_le_bytes(a.0)])
    }

    #[inline(always)]
    pub unsafe fn vget_lane_u64(a: uint64x1_t, lane: i32) -> u64 {
        a.0[lane as usize]
    }

    #[inline(always)]
    pub unsafe fn vreinterpretq_u64_u8(a: uint8x16_t) -> uint64x2_t {
        let mut lo = [0u8; 8];
        let mut hi = [0u8; 8];
        let mut i = 0;
        while i < 8 {
            lo[i] = a.0[i];
            hi[i] = a.0[8 + i];
            i += 1;
        }
        uint64x2_t([u64::from_le_bytes(lo), u64::from_le_bytes(hi)])
    }

    #[inline(always)]
    pub unsafe fn vgetq_lane_u64(a: uint64x2_t, lane: i32) -> u64 {
        a.0[lane as usize]
    }
}
