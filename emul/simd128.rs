//! FAST model of the wasm32 simd128 intrinsics memchr uses: a vector is a u128
//! bit-vector (byte i of the little-endian value is lane i). Not trusted on
//! its own: the `emul_equiv_simd128` harness proves every function equal to
//! the lane-wise reference in simd128_ref.rs for all inputs, on every run.
//! Copied into the `simd128` pseudo-target as `crate::verif_emul`.

pub mod wasm32 {
    const LO7: u128 = 0x7F7F7F7F_7F7F7F7F_7F7F7F7F_7F7F7F7F;

    #[derive(Clone, Copy, Debug)]
    #[repr(C, align(16))]
    pub struct v128(pub u128);

    #[inline(always)]
    pub fn u8x16_splat(b: u8) -> v128 {
        let mut v = b as u128;
        v |= v << 8;
        v |= v << 16;
        v |= v << 32;
        v |= v << 64;
        v128(v)
    }

    /// Unaligned 16-byte load.
    #[inline(always)]
    pub unsafe fn v128_load(p: *const v128) -> v128 {
        v128(u128::from_le(core::ptr::read_unaligned(p as *const u128)))
    }

    #[inline(always)]
    pub fn u8x16_eq(a: v128, b: v128) -> v128 {
        let x = a.0 ^ b.0;
        let t = !(((x & LO7) + LO7) | x | LO7);
        let mut m = t | (t >> 1);
        m |= m >> 2;
        m |= m >> 4;
        v128(m)
    }

    #[inline(always)]
    pub fn v128_and(a: v128, b: v128) -> v128 {
        v128(a.0 & b.0)
    }

    #[inline(always)]
    pub fn v128_or(a: v128, b: v128) -> v128 {
        v128(a.0 | b.0)
    }

    #[inline(always)]
    pub fn u8x16_bitmask(a: v128) -> u16 {
        let mut m = 0u16;
        let mut i = 0;
        while i < 16 {
            m |= (((a.0 >> (8 * i + 7)) & 1) as u16) << i;
            i += 1;
        }
        m
    }
}
