//! FAST model of the aarch64 NEON intrinsics memchr uses: vectors are u128 /
//! u64 bit-vectors (byte i of the little-endian value is lane i), so CBMC sees
//! plain bit-vector arithmetic instead of array updates. It is not trusted on
//! its own: the `emul_equiv_neon` harness proves every function here equal
//! to the lane-wise reference in neon_ref.rs for all inputs, on every run.
//! Copied into the `neon` pseudo-target as `crate::verif_emul`.

pub mod aarch64 {
    const LO7: u128 = 0x7F7F7F7F_7F7F7F7F_7F7F7F7F_7F7F7F7F;

    #[derive(Clone, Copy, Debug)]
    #[repr(C, align(16))]
    pub struct uint8x16_t(pub u128);
    #[derive(Clone, Copy, Debug)]
    #[repr(C, align(16))]
    pub struct uint16x8_t(pub u128);
    #[derive(Clone, Copy, Debug)]
    #[repr(C, align(8))]
    pub struct uint8x8_t(pub u64);
    #[derive(Clone, Copy, Debug)]
    #[repr(C, align(8))]
    pub struct uint64x1_t(pub u64);
    #[derive(Clone, Copy, Debug)]
    #[repr(C, align(16))]
    pub struct uint64x2_t(pub u128);

    #[inline(always)]
    pub unsafe fn vdupq_n_u8(b: u8) -> uint8x16_t {
        let mut v = b as u128;
        v |= v << 8;
        v |= v << 16;
        v |= v << 32;
        v |= v << 64;
        uint8x16_t(v)
    }

    /// Unaligned 16-byte load.
    #[inline(always)]
    pub unsafe fn vld1q_u8(p: *const u8) -> uint8x16_t {
        uint8x16_t(u128::from_le(core::ptr::read_unaligned(p as *const u128)))
    }

    /// Lane-wise equality: 0xFF where equal, 0x00 elsewhere.
    #[inline(always)]
    pub unsafe fn vceqq_u8(a: uint8x16_t, b: uint8x16_t) -> uint8x16_t {
        let x = a.0 ^ b.0;
        // exact zero-byte detector: bit 7 of a lane is set iff the lane is 0
        let t = !(((x & LO7) + LO7) | x | LO7);
        // spread bit 7 over the whole lane
        let mut m = t | (t >> 1);
        m |= m >> 2;
        m |= m >> 4;
        uint8x16_t(m)
    }

    #[inline(always)]
    pub unsafe fn vandq_u8(a: uint8x16_t, b: uint8x16_t) -> uint8x16_t {
        uint8x16_t(a.0 & b.0)
    }

    #[inline(always)]
    pub unsafe fn vorrq_u8(a: uint8x16_t, b: uint8x16_t) -> uint8x16_t {
        uint8x16_t(a.0 | b.0)
    }

    /// Pairwise maximum: lanes 0..8 from adjacent pairs of `a`, 8..16 from `b`.
    #[inline(always)]
    pub unsafe fn vpmaxq_u8(a: uint8x16_t, b: uint8x16_t) -> uint8x16_t {
        let mut o: u128 = 0;
        let mut i = 0;
        while i < 8 {
            let x = (a.0 >> (16 * i)) & 0xFF;
            let y = (a.0 >> (16 * i + 8)) & 0xFF;
            o |= (if x > y { x } else { y }) << (8 * i);
            let x = (b.0 >> (16 * i)) & 0xFF;
            let y = (b.0 >> (16 * i + 8)) & 0xFF;
            o |= (if x > y { x } else { y }) << (64 + 8 * i);
            i += 1;
        }
        uint8x16_t(o)
    }

    #[inline(always)]
    pub unsafe fn vreinterpretq_u16_u8(a: uint8x16_t) -> uint16x8_t {
        uint16x8_t(a.0)
    }

    /// Shift right narrow by `n` (a constant at every call site).
    #[inline(always)]
    pub unsafe fn vshrn_n_u16(a: uint16x8_t, n: i32) -> uint8x8_t {
        let mut o: u64 = 0;
        let mut i = 0;
        while i < 8 {
            let lane = ((a.0 >> (16 * i)) & 0xFFFF) as u64;
            o |= ((lane >> (n as u32)) & 0xFF) << (8 * i);
            i += 1;
        }
        uint8x8_t(o)
    }

    #[inline(always)]
    pub unsafe fn vreinterpret_u64_u8(a: uint8x8_t) -> uint64x1_t {
        uint64x1_t(a.0)
    }

    #[inline(always)]
    pub unsafe fn vget_lane_u64(a: uint64x1_t, _lane: i32) -> u64 {
        a.0
    }

    #[inline(always)]
    pub unsafe fn vreinterpretq_u64_u8(a: uint8x16_t) -> uint64x2_t {
        uint64x2_t(a.0)
    }

    #[inline(always)]
    pub unsafe fn vgetq_lane_u64(a: uint64x2_t, lane: i32) -> u64 {
        (a.0 >> (64 * (lane as u32))) as u64
    }
}
