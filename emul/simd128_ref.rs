//! REFERENCE model of the wasm32 simd128 intrinsics memchr uses (lane-wise
//! over byte arrays, little endian). Trusted definition; simd128.rs is proved
//! equivalent to it by the `emul_equiv_*` harnesses on every run.


pub mod wasm32_ref {
    #[derive(Clone, Copy, Debug)]
    #[repr(C, align(16))]
    pub struct v128(pub [u8; 16]);

    #[inline(always)]
    pub fn u8x16_splat(b: u8) -> v128 {
        v128([b; 16])
    }

    /// Unaligned 16-byte load.
    #[inline(always)]
    pub unsafe fn v128_load(p: *const v128) -> v128 {
        v128(core::ptr::read_unaligned(p as *const [u8; 16]))
    }

    #[inline(always)]
    pub fn u8x16_eq(a: v128, b: v128) -> v128 {
        let mut o = [0u8; 16];
        let mut i = 0;
        while i < 16 {
            o[i] = if a.0[i] == b.0[i] { 0xFF } else { 0 };
            i += 1;
        }
        v128(o)
    }

    #[inline(always)]
    pub fn v128_and(a: v128, b: v128) -> v128 {
        let mut o = [0u8; 16];
        let mut i = 0;
        while i < 16 {
            o[i] = a.0[i] & b.0[i];
            i += 1;
        }
        v128(o)
    }

    #[inline(always)]
    pub fn v128_or(a: v128, b: v128) -> v128 {
        let mut o = [0u8; 16];
        let mut i = 0;
        while i < 16 {
            o[i] = a.0[i] | b.0[i];
            i += 1;
        }
        v128(o)
    }

    #[inline(always)]
    pub fn u8x16_bitmask(a: v128) -> u16 {
        let mut m = 0u16;
        let mut i = 0;
        while i < 16 {
            m |= ((a.0[i] >> 7) as u16) << i;
            i += 1;
        }
        m
    }
}
