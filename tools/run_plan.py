#!/usr/bin/env python3
"""Runs tools/mutation_plan.txt: for each seeded change, the property's check
restricted to the harnesses predicted to catch it (or the whole quick check for
'-'), each against a scratch worktree of /repo with the patch applied. Writes
/tmp/mutation_results.jsonl and prints a table."""
import concurrent.futures as cf, json, os, re, subprocess, sys
plan = []
only_ids = set(sys.argv[1:])
for l in open('/verif/tools/mutation_plan.txt'):
    l = l.strip()
    if not l or l.startswith('#'): continue
    mid, prop, rx = l.split(None, 2)
    if only_ids and mid not in only_ids: continue
    plan.append((mid, prop, rx))
def run(item):
    mid, prop, rx = item
    args = ['/verif/tools/run_seeded.sh', mid, prop, '--jobs', '4', '--tier', os.environ.get('PLAN_TIER', 'quick')]
    if rx != '-':
        args += ['--only', rx]
    p = subprocess.run(args, capture_output=True, text=True)
    out = p.stdout
    m = re.search(r'RESULT (\S+) (\S+) rc=(\d+) violations=(\d+)', out)
    res = {'id': mid, 'prop': prop, 'only': rx, 'rc': int(m.group(3)) if m else None,
           'violations': int(m.group(4)) if m else None, 'detail': out.strip().split('\n')[1:5]}
    print(json.dumps(res), flush=True)
    return res
with cf.ThreadPoolExecutor(max_workers=int(os.environ.get('PLAN_PAR', '4'))) as ex:
    results = list(ex.map(run, plan))
with open('/tmp/mutation_results.jsonl', 'a') as f:
    for r in results: f.write(json.dumps(r) + '\n')
