#!/usr/bin/env python3
"""Writes /verif/MANIFEST.json from the table below (kept in one place so that
the claimed set, the not_applicable list and the level notes stay in sync)."""
import json, os, sys

VERIF = os.path.dirname(os.path.dirname(os.path.abspath(__file__)))

TECH = "bounded symbolic execution of the real code (Kani 0.68 / CBMC 6.11, SAT-decided over all inputs within stated bounds)"

CLAIMS = {
    # id: (level text, design ref, technique suffix, note)
}

NA = {
    "C13": "asymptotic claim (work linear in input size): a bounded solver query cannot separate linear from quadratic growth at reachable sizes; see DESIGN.md section 6",
    "C15": "quantifies over thread schedules; Kani/CBMC model atomics sequentially and reject threads, and no interleaving encoder for the macro-generated dispatcher is within reach; see DESIGN.md section 6",
}


def load_claims():
    p = os.path.join(VERIF, "tools", "claims.json")
    return json.load(open(p))


def main():
    claims = load_claims()
    checks = []
    for pid in sorted(claims["claimed"]):
        c = claims["claimed"][pid]
        checks.append({
            "property_id": pid,
            "quick_cmd": "./check %s --tier quick" % pid,
            "thorough_cmd": "./check %s --tier thorough" % pid,
            "evidence_file": "evidence/%s.json" % pid,
            "replay_cmd_template": "./check --replay {path}",
            "engine": "kani-cbmc",
            "level_claimed": {
                "category": "model_checking",
                "text": c["text"],
                "design_ref": c.get("design_ref", "DESIGN.md section 5/" + pid),
            },
            "level_note": c["note"],
            "technique": c.get("technique", TECH),
        })
    na = []
    for pid, reason in sorted(claims.get("not_applicable", {}).items()):
        na.append({"property_id": pid, "reason": reason})
    man = {
        "version": 1,
        "setup_cmd": "true",
        "hooks": {
            "guard": "memchr_verif",
            "enable": "RUSTFLAGS='--cfg memchr_verif' (set by ./check for every build of /repo; cargo kani and native replay)",
            "baseline_off_cmd": "cd /repo && cargo test --workspace --no-fail-fast --offline",
            "source_commits": claims["hook_commits"],
            "add_only": True,
        },
        "engines": [{
            "name": "kani-cbmc",
            "path": "/verif/check",
            "serves_properties": sorted(claims["claimed"]),
            "kind_free_text": "Python driver: copies /verif/harness to a scratch dir, builds it against /repo's working tree (or a cfg-rewritten copy for pseudo-targets) with cargo kani, decides each #[kani::proof] harness with CBMC (per-loop unwindsets, unwinding assertions on), classifies failed checks, replays counterexamples natively via Kani concrete playback with guard-page placement, writes evidence",
        }],
        "checks": checks,
        "not_applicable": na,
        "notes": claims.get("notes", ""),
    }
    json.dump(man, open(os.path.join(VERIF, "MANIFEST.json"), "w"), indent=1)
    print("wrote MANIFEST.json: %d claimed, %d not applicable" % (len(checks), len(na)))


if __name__ == "__main__":
    main()
