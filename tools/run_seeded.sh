#!/bin/sh
# usage: run_seeded.sh <seeded-id> <PROP> [extra check args...]
# Applies /verif/seeded/<id>/patch.diff in a scratch worktree of /repo (HEAD),
# runs ./check <PROP> against that worktree (VERIF_REPO), prints the verdict
# line and removes the worktree. Never touches /repo's working tree.
ID="$1"; PROP="$2"; shift 2
WT=/var/tmp/seeded-wt-$ID-$PROP-$$
git -C /repo worktree add -q --detach "$WT" HEAD || exit 2
if ! git -C "$WT" apply /verif/seeded/$ID/patch.diff; then echo "RESULT $ID $PROP patch-does-not-apply"; git -C /repo worktree remove --force "$WT"; exit 2; fi
cd /verif
VERIF_REPO="$WT" VERIF_SCRATCH=/var/tmp/seeded-scratch-$ID-$PROP-$$ ./check "$PROP" --no-evidence "$@" > /tmp/seeded-$ID-$PROP.log 2>&1
RC=$?
V=$(grep -c "^VIOLATION" /tmp/seeded-$ID-$PROP.log)
echo "RESULT $ID $PROP rc=$RC violations=$V $(grep -E 'tier=' /tmp/seeded-$ID-$PROP.log | tail -1)"
grep -E "failed check|INCONCLUSIVE" /tmp/seeded-$ID-$PROP.log | head -6
git -C /repo worktree remove --force "$WT"
rm -rf /var/tmp/seeded-scratch-$ID-$PROP-$$
