#!/usr/bin/env python3
"""Keeps C05 / C14 in `props=` (all tiers) only for the harnesses listed here;
everywhere else they are moved to `xprops=` (thorough tier only), so that the
quick C05 / C14 checks stay within budget while the thorough tier runs the
union of all harnesses."""
import glob, re, os
ROOT = os.path.dirname(os.path.dirname(os.path.abspath(__file__)))
KEEP = {
 "C05": """swar_one_find_flush swar_three_rfind_flush sse2_one_find_flush g4_one_find g4_three_rfind g4_one_count swar_one_find swar_one_rfind swar_one_raw sse2_one_find sse2_one_rfind
   pp_g4_find_n3 pp_g4_pre_n3 c18_exact_7_7 c18_exact_6_3 c18_exact_3_5 c18_exact_0_0 c18_raw_19 c18_is_equal
   b_rk_fwd_3_8 b_rk_rev_3_8 mm_twoway_fwd mm_twoway_rev mm_rk_fwd mm_rk_rev mm_packed_g4 lane_aligned_sse2 lane_aligned_avx2
   witness_misaligned_sse2 witness_misaligned_avx2 panic_below_min_sse2_find panic_below_min_sse2_pre panic_below_min_avx2_find
   panic_below_min_g4_pre below_min_reads_sse2_find below_min_reads_sse2_pre below_min_reads_avx2_pre m_finder_n2_sse2 m_oneshot_rev long_pre_f3_sse2_40 long_pre_f5_sse2_40 long_pre_f0_sse2_40 sse2_one_count""".split(),
 "C14": """tw_abstract_2_4_state tw_abstract_3_6 panic_below_min_sse2_find panic_below_min_sse2_pre panic_below_min_avx2_find
   panic_below_min_g4_pre fi_step_n0 fi_step_n2_rk fri_step_n0 g4_one_find g4_one_count swar_one_find swar_one_raw sse2_one_raw
   avx2_two_raw c19_with_ranker_40 c19_with_ranker_long_258 c19_with_indices m_oneshot_fwd m_oneshot_rev m_finder_n2_sse2 long_pre_f3_sse2_40
   long_inert_f0_40 b_rk_fwd_33 pp_g4_find_n3 b_shiftor_16_8 it_swar1_step c18_raw_19 m_finder_n0 m_finder_rev_n0""".split(),
}
rx = re.compile(r"((?:inst|inst_noalloc)!\(\s*)(\w+)(\s*,\s*\[)(.*?)(\])", re.S)
for path in glob.glob(os.path.join(ROOT, "harness", "src", "*.rs")):
    s = open(path).read()
    def fix(m):
        name = m.group(2)
        toks = m.group(4).split()
        props, xprops = [], []
        for t in toks:
            if t.startswith("props="):
                props = t[6:].split("+")
            elif t.startswith("xprops="):
                xprops = t[7:].split("+")
        allp = props + [x for x in xprops if x not in props]
        newp, newx = [], []
        for p in allp:
            if p in KEEP and name not in KEEP[p]:
                newx.append(p)
            else:
                newp.append(p)
        out = []
        done = False
        for t in toks:
            if t.startswith("props="):
                out.append("props=" + "+".join(newp))
                if newx:
                    out.append("xprops=" + "+".join(newx))
            elif t.startswith("xprops="):
                continue
            else:
                out.append(t)
        return m.group(1) + name + m.group(3) + " ".join(out) + m.group(5)
    s2 = rx.sub(fix, s)
    if s2 != s:
        open(path, "w").write(s2)
