#!/usr/bin/env python3
"""Updates seeded/<id>/meta.json from run_plan.py output logs (jsonl)."""
import json, re, sys, os
for log in sys.argv[1:]:
    for l in open(log):
        try: r = json.loads(l)
        except Exception: continue
        p = '/verif/seeded/%s/meta.json' % r['id']
        if not os.path.exists(p): continue
        m = json.load(open(p))
        runs = m.setdefault('check_runs', [])
        tier = r.get('tier', 'quick')
        entry = {'property_check': r['prop'], 'harness_filter': r['only'], 'tier': tier, 'exit': r['rc'],
                 'violations': r['violations'], 'first_lines': r['detail'][:2]}
        runs[:] = [e for e in runs if not (e['property_check'] == entry['property_check'] and e['harness_filter'] == entry['harness_filter'] and e.get('tier') == tier)]
        runs.append(entry)
        if r['rc'] == 1:
            hs = sorted(set(re.findall(r'failed check \[\w+\] (\w+):', ' '.join(r['detail']))))
            m['detected_by'] = {'by': './check %s (%s)' % (r['prop'], ', '.join(hs) if hs else r['only']), 'tier': tier}
        elif not m.get('detected_by'):
            m['detected_by'] = None
        m['what_was_run'] = "tools/run_seeded.sh %s <PROP> [--only <harnesses>]: git worktree of /repo HEAD + git apply patch.diff, ./check against it via VERIF_REPO, worktree removed afterwards" % r['id']
        json.dump(m, open(p, 'w'), indent=1)
print('ok')
