#!/bin/sh
# usage: confirm_mutation.sh <worktree> <mutation-dir> [extra cargo run args]
# Confirms: patch applies; test suite passes with it; demo fails with it;
# demo passes without it. Prints a one-line JSON summary.
WT="$1"; M="$2"; shift 2; EXTRA="$*"
export CARGO_NET_OFFLINE=true
cd "$WT" || exit 2
git checkout -q -- src 2>/dev/null
git apply --check "$M/patch.diff" 2>/dev/null || { echo "{\"dir\":\"$M\",\"applies\":false}"; exit 1; }
git apply "$M/patch.diff"
T=$(cargo test --offline 2>&1 | grep -E "^test result" | tr '\n' ' ')
case "$T" in *"141 passed; 0 failed"*) TESTS=pass;; *) TESTS="fail";; esac
rundemo() {
  if [ -f "$M/run.sh" ]; then (cd "$WT" && sh "$M/run.sh" >/tmp/demo.out 2>&1); echo $?;
  else (cd "$M" && CARGO_TARGET_DIR="$WT/target/demo" cargo run --offline -q $EXTRA >/tmp/demo.out 2>&1); echo $?; fi
}
WITH=$(rundemo)
git checkout -q -- src
WITHOUT=$(rundemo)
echo "{\"dir\":\"$M\",\"applies\":true,\"tests_with_patch\":\"$TESTS\",\"demo_exit_with_patch\":$WITH,\"demo_exit_without_patch\":$WITHOUT}"
