#!/usr/bin/env python3
"""Prints a Markdown table of every registered harness (source of truth: the
inst! declarations), for DESIGN.md appendix D."""
import importlib.machinery, importlib.util, sys
loader = importlib.machinery.SourceFileLoader('chk', '/verif/check')
spec = importlib.util.spec_from_loader('chk', loader); m = importlib.util.module_from_spec(spec); loader.exec_module(m)
hs = m.load_harnesses()
print("| harness | tier | configurations | properties (all tiers) | thorough-only | instance (bounds are the const/actual parameters) |")
print("|---|---|---|---|---|---|")
for h in sorted(hs.values(), key=lambda h: (h.module, h.tier, h.name)):
    if not h.props and not h.xprops:
        continue
    print("| `%s` | %s | %s | %s | %s | `%s` |" % (h.name, h.tier, "+".join(h.cfgs), " ".join(h.props), " ".join(h.xprops), getattr(h, "body", "")))
