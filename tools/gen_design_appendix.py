#!/usr/bin/env python3
"""Regenerates the machine-written parts of DESIGN.md: section 12 (as-built
claim per property, from tools/claims.json), section 13 (seeded changes and
which check caught them, from seeded/*/meta.json) and appendix D (registered
harnesses, from the inst! declarations)."""
import json, glob, os, re, subprocess, sys
V = '/verif'
s = open(V + '/DESIGN.md').read()
claims = json.load(open(V + '/tools/claims.json'))
out = []
out.append("## 12. As-built claim per property (what the registered checks decide)\n")
out.append("Every claim is *bounded*: it holds for all inputs within the bounds of the\nharnesses listed in appendix D and says nothing outside them. Measured wall\ntimes of the quick commands on the unchanged tree are in `evidence/<id>.json`.\n")
for pid in sorted(claims['claimed']):
    c = claims['claimed'][pid]
    ev = {}
    try:
        ev = json.load(open(V + '/evidence/%s.json' % pid))
    except Exception:
        pass
    meas = ""
    if ev:
        cov = ev.get('coverage', {})
        meas = "\n\n*Measured on the unchanged tree (%s tier, 16 cores):* %d harness runs, %d solver-decided checks, %d satisfied reachability witnesses, wall %.0f s (symbolic execution %.0f s + solver %.0f s of CPU)." % (
            ev.get('tier'), len(cov.get('harnesses', [])), cov.get('evaluations', 0), cov.get('distinct_nontrivial', 0), ev.get('wall_s', 0), cov.get('symex_time_s', 0), cov.get('solver_time_s', 0))
    out.append("**%s.** %s\n\n*Assumed / trusted:* %s%s\n" % (pid, c['text'], c['note'], meas))
for pid, reason in sorted(claims['not_applicable'].items()):
    out.append("**%s — not applicable.** %s\n" % (pid, reason))
out.append("\n## 13. Seeded changes (independent sub-agents) and what caught them\n")
out.append("Each change below was written by a fresh sub-agent that saw only the text of\none property and a scratch worktree; it compiles, passes the 141 existing\ntests, and its own demonstration fails with it and passes without it (all\nconfirmed again by `tools/confirm_mutation.sh`). `tools/run_seeded.sh` applies\na change in a scratch worktree of `/repo` and runs a registered check against\nit (`VERIF_REPO`). \"caught\" = exit 1 with a `VIOLATION` line after native\nreplay.\n")
metas = [json.load(open(d)) for d in sorted(glob.glob(V + '/seeded/*/meta.json')) if 'fixrevert' not in d]
nq = sum(1 for m in metas if (m.get('detected_by') or {}).get('tier') == 'quick')
nt = sum(1 for m in metas if (m.get('detected_by') or {}).get('tier') == 'thorough')
out.append("**Result: %d of %d seeded changes are caught (%d by a quick-tier check, %d only by the thorough tier); %d are not caught.** The misses and why:\n" % (nq + nt, len(metas), nq, nt, len(metas) - nq - nt))
for m in metas:
    if not m.get('detected_by'):
        out.append("* %s — %s" % (m['id'], m.get('not_caught_because', 'see notes.md')))
out.append("")
out.append("Several changes were first missed and led to changes in the machinery (each is described in section 11): the output parser that dropped checks inside generic functions (C07-m1), padded buffers hiding over-reads (C05-m1), out-of-bounds pointers hiding the read behind them (C05-m2, C05-m3), aliasing operands (C18-m1), mixed guard-page placements (C18-m2), the index1 > index2 long-needle family (C03-m3), 2-lane runs at 80 bytes (C02-m3), a cheap 258-byte pair-selection harness (C10-m2, C19-m1), Two-Way at needle 3 / haystack 8 and needle 4 / haystack 7 (C12-m1, C12-m3).\n")
out.append("| id | site / effect (short) | needs | caught by (property check: harness) | tier |")
out.append("|---|---|---|---|---|")
for d in sorted(glob.glob(V + '/seeded/*/meta.json')):
    m = json.load(open(d))
    det = m.get('detected_by') or {}
    out.append("| %s | %s | %s | %s | %s |" % (m['id'], m.get('summary', 'see notes.md'), m.get('needs_to_manifest', 'see notes.md'),
               det.get('by', 'not caught') if det else 'not yet run', det.get('tier', '') if det else ''))
out.append("")
tbl = subprocess.run([sys.executable, V + '/tools/gen_bounds_table.py'], capture_output=True, text=True).stdout
out.append("\n## Appendix D. Registered harnesses (generated from the `inst!` declarations)\n")
out.append(tbl)
block = "\n".join(out)
start = "<!-- GENERATED:BEGIN -->"
end = "<!-- GENERATED:END -->"
if start in s:
    s = s[:s.index(start)] + start + "\n" + block + "\n" + end + s[s.index(end) + len(end):]
else:
    s = s.rstrip("\n") + "\n\n---------------------------------------------------------------------------\n\n" + start + "\n" + block + "\n" + end + "\n"
open(V + '/DESIGN.md', 'w').write(s)
print("DESIGN.md updated")
