#!/usr/bin/env python3
"""Imports confirmed mutations (from the confirmation log produced by
tools/confirm_mutation.sh) into /verif/seeded/<PROP>-m<k>/."""
import json, os, shutil, sys, re
log = sys.argv[1]
for line in open(log):
    line = line.strip()
    if not line.startswith("{"):
        continue
    r = json.loads(line)
    ok = r.get("applies") and r.get("tests_with_patch") == "pass" and r.get("demo_exit_with_patch", 0) != 0 and r.get("demo_exit_without_patch") == 0
    m = re.search(r"/tmp/mut/(C\d+)/MUTATIONS/(m\d)", r["dir"])
    prop, k = m.group(1), m.group(2)
    if not ok:
        print("NOT confirmed:", r)
        continue
    dst = "/verif/seeded/%s-%s" % (prop, k)
    os.makedirs(dst, exist_ok=True)
    for fn in os.listdir(r["dir"]):
        src = os.path.join(r["dir"], fn)
        if os.path.isfile(src) and fn != "Cargo.lock" and os.path.getsize(src) < 200000:
            shutil.copy(src, os.path.join(dst, fn))
    meta_p = os.path.join(dst, "meta.json")
    meta = json.load(open(meta_p)) if os.path.exists(meta_p) else {}
    notes = open(os.path.join(dst, "notes.md")).read() if os.path.exists(os.path.join(dst, "notes.md")) else ""
    meta.update({
        "id": "%s-%s" % (prop, k),
        "breaks_property": prop,
        "origin": "independent sub-agent given only the property text and a scratch worktree",
        "needs_to_manifest": meta.get("needs_to_manifest", "see notes.md"),
        "confirmation": {
            "how": "tools/confirm_mutation.sh in a scratch worktree: git apply patch.diff; cargo test --offline (141 lib tests pass); demo fails; git checkout; demo passes",
            "tests_with_patch": r["tests_with_patch"],
            "demo_exit_with_patch": r["demo_exit_with_patch"],
            "demo_exit_without_patch": r["demo_exit_without_patch"],
        },
    })
    meta.setdefault("detected_by", None)
    json.dump(meta, open(meta_p, "w"), indent=1)
    print("imported", dst)
