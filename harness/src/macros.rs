/// Declares one Kani proof harness.
///
/// `inst!(name, [key=value ...], unwind, body_expr);`
///
/// The bracketed metadata is not used by Rust; /verif/check parses it:
///   props=C01+C05   properties this harness is evidence for
///   tier=quick|thorough
///   cfg=x86std+generic   build configurations in which it is run
///   t=<seconds>     per-harness time limit
///   role=<text>     what the harness is for (used in known-findings keys)
///   expect=fail:<substring>   witness harness: must FAIL with that message
#[macro_export]
macro_rules! inst {
    ($name:ident, [$($meta:tt)*], $unwind:expr, $body:expr) => {
        #[cfg(kani)]
        #[kani::proof]
        #[kani::unwind($unwind)]
        pub fn $name() {
            $body
        }
    };
}

/// Like `inst!`, with the global allocator entry points replaced by a trap.
#[macro_export]
macro_rules! inst_noalloc {
    ($name:ident, [$($meta:tt)*], $unwind:expr, $body:expr) => {
        #[cfg(kani)]
        #[kani::proof]
        #[kani::unwind($unwind)]
        #[kani::stub(std::alloc::alloc, crate::c17::trap_alloc)]
        #[kani::stub(std::alloc::alloc_zeroed, crate::c17::trap_alloc)]
        #[kani::stub(std::alloc::realloc, crate::c17::trap_realloc)]
        pub fn $name() {
            $body
        }
    };
}
