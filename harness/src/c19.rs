//! C19: pair selection.

use crate::place::Buf;
use memchr::arch::all::packedpair::{HeuristicFrequencyRank, Pair};

/// A ranker that returns a fresh unconstrained byte on every call: this
/// over-approximates every function u8 -> u8 (constant, adversarial,
/// non-injective) and even inconsistent rankers.
pub struct NondetRanker;

impl HeuristicFrequencyRank for NondetRanker {
    fn rank(&self, _byte: u8) -> u8 {
        #[cfg(kani)]
        {
            kani::any()
        }
        #[cfg(not(kani))]
        {
            0
        }
    }
}

#[cfg(kani)]
pub fn with_ranker<const CAP: usize>(min: usize, max: usize, default_ranker: bool) {
    let buf = Buf::<CAP>::any();
    let len: usize = kani::any();
    kani::assume(len >= min && len <= max && len <= CAP);
    let needle = &buf.0[..len];
    let r = if default_ranker { Pair::new(needle) } else { Pair::with_ranker(needle, NondetRanker) };
    match r {
        None => assert!(len < 2, "oracle: no pair for a needle of >= 2 bytes"),
        Some(p) => {
            assert!(len >= 2, "oracle: pair for a needle of < 2 bytes");
            assert!(p.index1() != p.index2(), "oracle: pair offsets equal");
            assert!((p.index1() as usize) < len && (p.index2() as usize) < len, "oracle: pair offset outside the needle");
            assert!(p.index1() <= 254 && p.index2() <= 254, "oracle: pair offset above 254");
            kani::cover!(p.index1() > p.index2(), "index1 > index2");
            kani::cover!(len == max && (p.index1() as usize == len - 1 || p.index1() == 254), "last eligible offset chosen");
        }
    }
}

/// Needle of exactly LEN identical bytes (concrete contents), nondeterministic
/// ranker: decides the loop structure of `with_ranker` (the 255 cap, the
/// `u8::try_from(i).unwrap()`) cheaply for long needles.
#[cfg(kani)]
pub fn with_ranker_long<const LEN: usize>() {
    let needle = [b'a'; LEN];
    match Pair::with_ranker(&needle[..], NondetRanker) {
        None => assert!(LEN < 2, "oracle: no pair for a needle of >= 2 bytes"),
        Some(p) => {
            assert!(p.index1() != p.index2(), "oracle: pair offsets equal");
            assert!((p.index1() as usize) < LEN && (p.index2() as usize) < LEN, "oracle: pair offset outside the needle");
            assert!(p.index1() <= 254 && p.index2() <= 254, "oracle: pair offset above 254");
            kani::cover!(p.index1() == 254, "last eligible offset chosen");
        }
    }
}

#[cfg(kani)]
pub fn with_indices<const CAP: usize>(max: usize) {
    let buf = Buf::<CAP>::any();
    let len: usize = kani::any();
    kani::assume(len <= max && len <= CAP);
    let needle = &buf.0[..len];
    let (i1, i2): (u8, u8) = (kani::any(), kani::any());
    let r = Pair::with_indices(needle, i1, i2);
    let valid = i1 != i2 && (i1 as usize) < len && (i2 as usize) < len;
    match r {
        None => assert!(!valid, "oracle: with_indices rejected a valid pair"),
        Some(p) => {
            assert!(valid, "oracle: with_indices accepted an invalid pair");
            assert!(p.index1() == i1 && p.index2() == i2, "oracle: accessors differ from the given offsets");
        }
    }
    kani::cover!(r.is_some() && i1 == 255, "offset 255 accepted for a long needle");
    kani::cover!(r.is_none() && i1 != i2, "rejected for range");
}

/// Finders report the pair they were given.
#[cfg(all(kani, any(vcfg_x86std, vcfg_x86none, vcfg_x86alloc, vcfg_x86avx2)))]
pub fn finders_report_pair<const NLEN: usize>() {
    use memchr::arch::all::packedpair as portable;
    use memchr::arch::x86_64::{avx2, sse2};
    let needle: [u8; NLEN] = kani::any();
    let (i1, i2): (u8, u8) = (kani::any(), kani::any());
    if let Some(pair) = Pair::with_indices(&needle, i1, i2) {
        let mx = core::cmp::max(i1, i2) as usize;
        let f = portable::Finder::with_pair(&needle, pair).unwrap();
        assert!(f.pair().index1() == i1 && f.pair().index2() == i2, "oracle: portable finder reports another pair");
        if let Some(f) = sse2::packedpair::Finder::with_pair(&needle, pair) {
            assert!(f.pair().index1() == i1 && f.pair().index2() == i2, "oracle: sse2 finder reports another pair");
        }
        memchr::verif::force_avx2(Some(true));
        if let Some(f) = avx2::packedpair::Finder::with_pair(&needle, pair) {
            assert!(f.pair().index1() == i1 && f.pair().index2() == i2, "oracle: avx2 finder reports another pair");
            kani::cover!(true, "avx2 finder built");
        }
        let g = memchr::verif::SmallPacked::<4>::new(&needle, pair);
        assert!(g.pair().index1() == i1 && g.pair().index2() == i2, "oracle: generic finder reports another pair");
    }
}

inst!(c19_with_ranker_40, [props=C19+C14+C10 tier=quick cfg=x86std+generic t=900 role=with_ranker], 42, with_ranker::<40>(0, 40, false));
inst!(c19_new_24, [props=C19 xprops=C14 tier=quick cfg=x86std t=900 role=pair-new], 26, with_ranker::<24>(0, 24, true));
inst!(c19_with_indices, [props=C19+C14 tier=quick cfg=x86std t=600 role=with_indices], 3, with_indices::<300>(300));
#[cfg(any(vcfg_x86std, vcfg_x86none, vcfg_x86alloc, vcfg_x86avx2))]
inst!(c19_finders_report_pair, [props=C19 xprops=C14 tier=quick cfg=x86std t=600 role=finders-report-pair], 9, finders_report_pair::<6>());
inst!(c19_with_ranker_257, [props=C19+C10 xprops=C14 tier=thorough cfg=x86std t=1800 role=with_ranker-cap uw=with_ranker:260], 3, with_ranker::<257>(257, 257, false));
inst!(c19_with_ranker_long_258, [props=C19+C14+C10 tier=quick cfg=x86std t=1800 role=with_ranker-cap uw=with_ranker:260], 3, with_ranker_long::<258>());
inst!(c19_with_ranker_cap, [props=C19+C10 xprops=C14 tier=thorough cfg=x86std t=3600 role=with_ranker], 262, with_ranker::<260>(250, 260, false));
inst!(c19_with_ranker_300, [props=C19 xprops=C14 tier=manual cfg=x86std t=7200 role=with_ranker], 302, with_ranker::<300>(0, 300, false));
