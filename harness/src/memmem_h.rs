//! memmem-level harnesses: C03 (Two-Way against an abstract prefilter, long
//! needle route), C08 (substring iterators), C10 (heuristics), C14 extras,
//! C16 (finder purity, clone/own), C05 (mismatched needles).

use crate::c19::NondetRanker;
use crate::oracle::*;
use crate::place::{place, Buf};
use crate::substr::{force, sym_hay};
use memchr::memmem;

// ---------------------------------------------------------------------------
// C03 / C10 / C14: Two-Way driven by an abstract, contract-abiding prefilter
// and an arbitrary prefilter state.

pub const AP_MAX: usize = 12;
static mut AP_HLEN: usize = 0;
/// AP_NEXT[p] = offset of the first occurrence of the needle at or after p,
/// or usize::MAX.
static mut AP_NEXT: [usize; AP_MAX + 1] = [usize::MAX; AP_MAX + 1];
static mut AP_CALLS: usize = 0;

/// The abstract prefilter: any function that obeys the C11 contract. The
/// candidate is re-chosen nondeterministically at every call.
#[cfg(kani)]
fn abstract_prefilter(h: &[u8]) -> Option<usize> {
    unsafe {
        AP_CALLS += 1;
        let pos = AP_HLEN - h.len();
        let nx = AP_NEXT[pos];
        let c: usize = kani::any();
        if nx != usize::MAX {
            // an occurrence exists at nx >= pos: must return a candidate <= it
            kani::assume(c <= nx - pos);
            Some(c)
        } else {
            let none: bool = kani::any();
            if none {
                None
            } else {
                kani::assume(c <= h.len());
                Some(c)
            }
        }
    }
}

#[cfg(kani)]
pub fn twoway_abstract<const NMAX: usize, const HMAX: usize>(nmin: usize) {
    let nb: [u8; NMAX] = kani::any();
    let nlen: usize = kani::any();
    kani::assume(nlen >= nmin && nlen >= 2 && nlen <= NMAX);
    let n = &nb[..nlen];
    let (hb, hlen) = sym_hay::<HMAX>(0, HMAX);
    let h = &hb.0[..hlen];
    // next-occurrence table, computed once (right to left)
    unsafe {
        AP_HLEN = hlen;
        let mut next = usize::MAX;
        let mut p = HMAX + 1;
        while p > 0 {
            p -= 1;
            if p <= hlen && nlen <= hlen - p && is_match(h, n, p) {
                next = p;
            }
            if p <= hlen {
                AP_NEXT[p] = next;
            }
        }
    }
    let (skips, skipped): (u32, u32) = (kani::any(), kani::any());
    let (r, _st) = memmem::verif_twoway_with_abstract_prefilter(n, h, skips, skipped, abstract_prefilter);
    check_leftmost(h, n, r);
    kani::cover!(unsafe { AP_CALLS } >= 2 && r.is_some(), "prefilter consulted twice, occurrence found");
    kani::cover!(skips == 0 && r.is_some(), "inert at entry");
    kani::cover!(skips > 60 && skipped < 8, "ineffective at entry: becomes inert");
    kani::cover!(skips > (1u32 << 30), "huge skip count (the C14 overflow regime)");
}

inst!(tw_abstract_3_6, [props=C03+C10+C14+C08+C09+C16 tier=quick cfg=x86std t=1800 role=twoway-abstract-prefilter uw=@TW:3:6;twoway_abstract:9;oracle:5], 3, twoway_abstract::<3, 6>(2));
inst!(tw_abstract_2_4_state, [props=C14+C10 tier=quick cfg=x86std t=900 role=prefilter-state-arithmetic uw=@TW:2:4;twoway_abstract:7;oracle:4], 3, twoway_abstract::<2, 4>(2));
inst!(tw_abstract_3_7, [props=C03+C10 xprops=C14 tier=thorough cfg=x86std t=3600 role=twoway-abstract-prefilter uw=@TW:3:7;twoway_abstract:10;oracle:5], 3, twoway_abstract::<3, 7>(3));
inst!(tw_abstract_4_8, [props=C03+C10 xprops=C14 tier=thorough cfg=x86std t=7200 role=twoway-abstract-prefilter uw=@TW:4:8;twoway_abstract:11;oracle:6], 3, twoway_abstract::<4, 8>(4));

// ---------------------------------------------------------------------------
// C03 / C10: the meta searcher with a nondeterministic ranker

#[cfg(kani)]
pub fn finder_nondet_ranker<const NLEN: usize, const HCAP: usize>(mode: u8, hmin: usize, hmax: usize) {
    force(mode);
    let nb: [u8; NLEN] = kani::any();
    let nz1 = [0u8; 1];
    let n = place(crate::substr::nz(&nb, &nz1));
    let (hb, hlen) = sym_hay::<HCAP>(hmin, hmax);
    let h = place(&hb.0[..hlen]);
    let pre_none: bool = kani::any();
    let mut b = memmem::FinderBuilder::new();
    if pre_none {
        b.prefilter(memmem::Prefilter::None);
    } else {
        b.prefilter(memmem::Prefilter::Auto);
    }
    let f = b.build_forward_with_ranker(NondetRanker, n);
    let r = f.find(h);
    check_leftmost(h, n, r);
    assert!(f.needle().len() == NLEN, "oracle: needle() length differs");
    kani::cover!(pre_none && r.is_some(), "Prefilter::None, occurrence");
    kani::cover!(!pre_none && r.is_none() && hlen == hmax, "Prefilter::Auto, none at max length");
}

// ---------------------------------------------------------------------------
// Long needles (> 32 bytes): Two-Way + the real vector prefilter.

/// Concrete long needles. family 0: rare pair near the front ("QZ" + a^31);
/// 1: small period (ab)^16 a; 2: a^33; 3: rare byte late (a^20 Q a^11 Z);
/// 4: bytes equal mod 64 (A=0x41, 0x01, 0x81 mixed); 5: as 3 with Q and Z
/// exchanged (index1 > index2 in one of 3 / 5).
#[cfg(kani)]
pub fn long_needle(family: u8) -> [u8; 33] {
    let mut n = [b'a'; 33];
    match family {
        0 => {
            n[0] = b'Q';
            n[1] = b'Z';
        }
        1 => {
            let mut i = 0;
            while i < 33 {
                n[i] = if i % 2 == 0 { b'a' } else { b'b' };
                i += 1;
            }
        }
        2 => {}
        3 => {
            n[20] = b'Q';
            n[32] = b'Z';
        }
        5 => {
            // same as 3 with the two rare bytes exchanged, so that in one of
            // the two families the rarest byte (index1) comes AFTER the
            // second rarest (index2 < index1)
            n[20] = b'Z';
            n[32] = b'Q';
        }
        _ => {
            let mut i = 0;
            while i < 33 {
                n[i] = match i % 3 {
                    0 => 0x41,
                    1 => 0x01,
                    _ => 0x81,
                };
                i += 1;
            }
            n[7] = 0xC1;
        }
    }
    n
}

/// `Finder::verif_find_with_state` on a long needle: arbitrary prefilter
/// state at entry, fully symbolic haystack of concrete length.
#[cfg(kani)]
pub fn long_route<const HLEN: usize>(family: u8, mode: u8, inert: bool) {
    force(mode);
    let nb = long_needle(family);
    let n = &nb[..];
    let hb: [u8; HLEN] = kani::any();
    let h = place(&hb[..]);
    let f = memmem::Finder::new(n);
    // routing is an internal choice: observed for coverage, not asserted
    kani::cover!(f.verif_strategy() == 3, "long needle served by Two-Way with a prefilter");
    let (skips, skipped): (u32, u32) = if inert { (0, 0) } else { (kani::any(), kani::any()) };
    let (r, _) = f.verif_find_with_state(skips, skipped, h);
    check_leftmost(h, n, r);
    kani::cover!(r.is_some(), "occurrence");
    kani::cover!(r.is_none(), "no occurrence");
}

/// C11: one call of the private prefilter of a long-needle searcher
/// (short-haystack fallback `find_simple`, and the vector prefilter).
#[cfg(kani)]
pub fn long_prefilter_once<const HLEN: usize>(family: u8, mode: u8) {
    force(mode);
    let nb = long_needle(family);
    let n = &nb[..];
    let hb: [u8; HLEN] = kani::any();
    let h = place(&hb[..]);
    let f = memmem::Finder::new(n);
    let r = match f.verif_prefilter(h) {
        None => {
            assert!(false, "oracle: long needle searcher has no prefilter");
            return;
        }
        Some(r) => r,
    };
    crate::substr::check_prefilter_contract(h, n, 0, 0, r, false);
    kani::cover!(r.is_none(), "no candidate");
    kani::cover!(matches!(r, Some(c) if c > 0), "later candidate");
}

inst!(long_inert_f0_40, [props=C03+C14 tier=quick cfg=x86std t=1800 role=long-needle-route-inert uw=@LONGNEW;_imp.:35;oracle:35], 4,
    long_route::<40>(0, 1, true));
inst!(long_pre_f3_sse2_40, [props=C11+C05+C14+C03+C09+C10 tier=quick cfg=x86std t=1800 role=long-needle-prefilter-fallback uw=@LONGNEW;byte_by_byte:18;One::find_raw.0:6;find_prefilter.0:4;oracle:35], 4,
    long_prefilter_once::<40>(3, 1));
inst!(long_pre_f5_sse2_40, [props=C11+C05+C03+C09+C10 xprops=C14 tier=quick cfg=x86std t=1800 role=long-needle-prefilter-fallback uw=@LONGNEW;byte_by_byte:18;One::find_raw.0:6;find_prefilter.0:4;oracle:35], 4,
    long_prefilter_once::<40>(5, 1));
inst!(long_pre_f0_sse2_40, [props=C11+C05+C03+C09+C10 xprops=C14 tier=quick cfg=x86std t=1800 role=long-needle-prefilter-vector uw=@LONGNEW;byte_by_byte:18;One::find_raw.0:6;find_prefilter.0:4;oracle:35], 4,
    long_prefilter_once::<40>(0, 1));

// ---------------------------------------------------------------------------
// C08: substring iterators

#[cfg(kani)]
pub mod subiter {
    use super::*;

    /// One `FindIter::next` step from an arbitrary (pos, prefilter state).
    pub fn find_step<const NLEN: usize, const HCAP: usize>(mode: u8, hmin: usize, hmax: usize) {
        force(mode);
        let nb: [u8; NLEN] = kani::any();
        let nz1 = [0u8; 1];
        let n = place(crate::substr::nz(&nb, &nz1));
        let (hb, hlen) = sym_hay::<HCAP>(hmin, hmax);
        let h = place(&hb.0[..hlen]);
        let pos: usize = kani::any();
        kani::assume(pos <= hlen + 1);
        let (skips, skipped): (u32, u32) = (kani::any(), kani::any());
        let f = memmem::Finder::new(n);
        let mut it = memmem::FindIter::verif_from_state(h, f, pos, skips, skipped);
        // size_hint at this state
        let (lo, hi) = it.size_hint();
        if NLEN == 0 {
            // the number of matches still to come is known in closed form
            let left = if pos <= hlen { hlen - pos + 1 } else { 0 };
            assert!(lo <= left, "oracle: size_hint lower bound above the matches still to come");
            assert!(hi.map_or(true, |x| x >= left), "oracle: size_hint upper bound below the matches still to come");
        }
        let r = it.next();
        if NLEN > 0 {
            // necessary consequences of "lower <= #matches <= upper" that need
            // no counting loop (the traversal harnesses check the exact bracket)
            if lo >= 1 {
                assert!(r.is_some(), "oracle: size_hint lower bound >= 1 but no match is left");
            }
            if r.is_some() {
                assert!(hi.map_or(true, |x| x >= 1), "oracle: size_hint upper bound 0 but a match is left");
            }
        }
        let (pos2, _, _) = it.verif_state();
        if pos > hlen {
            assert!(r.is_none(), "oracle: exhausted iterator yielded a match");
            assert!(pos2 == pos, "oracle: exhausted iterator moved");
        } else {
            let rest = &h[pos..];
            match r {
                Some(m) => {
                    assert!(m >= pos, "oracle: match before the resume position");
                    check_leftmost(rest, n, Some(m - pos));
                    assert!(pos2 == m + core::cmp::max(NLEN, 1), "oracle: resume position is not right after the match");
                }
                None => {
                    check_leftmost(rest, n, None);
                    assert!(pos2 == pos, "oracle: position changed although None was returned");
                }
            }
        }
        kani::cover!(pos > 0 && r.is_some(), "match from an inner position");
        kani::cover!(pos == hlen + 1, "one past the end");
        kani::cover!(skips == 0, "prefilter inert");
    }

    /// One `FindRevIter::next` step from an arbitrary position.
    pub fn rfind_step<const NLEN: usize, const HCAP: usize>(hmin: usize, hmax: usize) {
        force(1);
        let nb: [u8; NLEN] = kani::any();
        let nz1 = [0u8; 1];
        let n = place(crate::substr::nz(&nb, &nz1));
        let (hb, hlen) = sym_hay::<HCAP>(hmin, hmax);
        let h = place(&hb.0[..hlen]);
        let some: bool = kani::any();
        let p: usize = kani::any();
        kani::assume(p <= hlen);
        let pos = if some { Some(p) } else { None };
        let f = memmem::FinderRev::new(n);
        let mut it = memmem::FindRevIter::verif_from_state(h, f, pos);
        let r = it.next();
        let pos2 = it.verif_state();
        match pos {
            None => {
                assert!(r.is_none() && pos2.is_none(), "oracle: exhausted reverse iterator yielded or moved");
            }
            Some(p) => {
                let rest = &h[..p];
                check_rightmost(rest, n, r);
                match r {
                    Some(i) => {
                        if NLEN == 0 {
                            assert!(i == p, "oracle: empty needle must match at the current position");
                            assert!(pos2 == p.checked_sub(1), "oracle: empty-needle reverse step");
                        } else {
                            assert!(pos2 == Some(i), "oracle: reverse resume position is not the match start");
                        }
                    }
                    None => {
                        // stays exhausted from the caller's point of view:
                        // a further call must also return None
                        let r2 = it.next();
                        assert!(r2.is_none(), "oracle: None followed by a match");
                    }
                }
            }
        }
        kani::cover!(some && p < hlen && r.is_some(), "match from an inner position");
        kani::cover!(!some, "exhausted state");
    }

    /// Full traversal compared with the naive greedy sequence, size_hint
    /// asserted before every call. `owned`: go through into_owned().
    pub fn traverse<const NLEN: usize, const HLEN: usize>(rev: bool, via_finder: bool, calls: usize) {
        force(1);
        let nb: [u8; NLEN] = kani::any();
        let nz1 = [0u8; 1];
        let n = place(crate::substr::nz(&nb, &nz1));
        let hb: [u8; HLEN] = kani::any();
        let h = place(&hb[..]);
        if !rev {
            // naive greedy sequence
            let mut want = [usize::MAX; 12];
            let mut cnt = 0;
            let mut pos = 0usize;
            while pos <= HLEN {
                match naive_find_from(h, n, pos) {
                    Some(m) => {
                        want[cnt] = m;
                        cnt += 1;
                        pos = m + core::cmp::max(NLEN, 1);
                    }
                    None => break,
                }
            }
            let finder = memmem::Finder::new(n);
            let mut it = if via_finder { finder.find_iter(h) } else { memmem::find_iter(h, n) };
            let mut k = 0;
            while k < calls {
                let left = if k < cnt { cnt - k } else { 0 };
                let (lo, hi) = it.size_hint();
                assert!(lo <= left, "oracle: size_hint lower bound above the matches still to come");
                assert!(hi.map_or(true, |x| x >= left), "oracle: size_hint upper bound below the matches still to come");
                let got = it.next();
                let exp = if k < cnt { Some(want[k]) } else { None };
                assert!(got == exp, "oracle: find_iter differs from the greedy non-overlapping sequence");
                k += 1;
            }
            kani::cover!(cnt >= 2, "several matches");
            if NLEN > 0 {
                kani::cover!(cnt == 0, "no match");
            }
        } else {
            let mut want = [usize::MAX; 12];
            let mut cnt = 0;
            let mut pos: Option<usize> = Some(HLEN);
            while let Some(p) = pos {
                match naive_rfind_upto(h, n, p) {
                    Some(m) => {
                        want[cnt] = m;
                        cnt += 1;
                        pos = if m == p { p.checked_sub(1) } else { Some(m) };
                    }
                    None => break,
                }
            }
            let finder = memmem::FinderRev::new(n);
            let mut it = if via_finder { finder.rfind_iter(h) } else { memmem::rfind_iter(h, n) };
            let mut k = 0;
            while k < calls {
                let got = it.next();
                let exp = if k < cnt { Some(want[k]) } else { None };
                assert!(got == exp, "oracle: rfind_iter differs from the mirror-image greedy sequence");
                k += 1;
            }
            kani::cover!(cnt >= 2, "several matches");
            if NLEN > 0 {
                kani::cover!(cnt == 0, "no match");
            }
        }
    }
}

inst!(fi_step_n0, [props=C08+C14 tier=quick cfg=x86std t=900 role=find-iter-step uw=@RK;@TWNEW;@TWOFF;with_ranker:6;oracle:6], 3, subiter::find_step::<0, 12>(1, 0, 12));
inst!(fi_step_n1, [props=C08 xprops=C14 tier=quick cfg=x86std t=1500 role=find-iter-step uw=@RK;@TWNEW;@TWOFF;with_ranker:6;oracle:6;@MEMCHR], 3, subiter::find_step::<1, 12>(1, 12, 12));
inst!(fi_step_n2_rk, [props=C08+C14 xprops=C05 tier=quick cfg=x86std t=1500 role=find-iter-step uw=@RK;@TWNEW;@TWOFF;with_ranker:6;oracle:6;@PP], 3, subiter::find_step::<2, 9>(1, 0, 9));
inst!(fri_step_n0, [props=C08+C14 tier=quick cfg=x86std t=900 role=rfind-iter-step uw=@RK;@TWNEW;@TWOFF;with_ranker:6;oracle:6], 3, subiter::rfind_step::<0, 12>(0, 12));
inst!(fri_step_n2_rk, [props=C08 xprops=C05+C14 tier=quick cfg=generic t=1500 role=rfind-iter-step uw=@RK;@TWNEW;@TWOFF;with_ranker:6;oracle:6], 3, subiter::rfind_step::<2, 9>(0, 9));
inst!(fi_trav_n0_5, [props=C08 xprops=C14 tier=quick cfg=x86std t=1500 role=find-iter-traversal uw=traverse:10;naive:8;@RK;@TWNEW;@TWOFF;with_ranker:6;oracle:6], 3, subiter::traverse::<0, 5>(false, false, 8));
inst!(fi_trav_n2_5x3, [props=C08 xprops=C14 tier=quick cfg=x86std t=1500 role=find-iter-traversal uw=traverse:11;naive:9;@RK;@TWNEW;@TWOFF;with_ranker:6;oracle:6;@PP], 3, subiter::traverse::<2, 5>(false, true, 3));
inst!(fri_trav_n0_5, [props=C08 xprops=C14 tier=quick cfg=x86std t=1500 role=rfind-iter-traversal uw=traverse:10;naive:8;@RK;@TWNEW;@TWOFF;with_ranker:6;oracle:6], 3, subiter::traverse::<0, 5>(true, true, 8));
inst!(fri_trav_n2_5x3, [props=C08 xprops=C14 tier=quick cfg=x86std t=1500 role=rfind-iter-traversal uw=traverse:11;naive:9;@RK;@TWNEW;@TWOFF;with_ranker:6;oracle:6;@PP], 3, subiter::traverse::<2, 5>(true, false, 3));
inst!(fi_trav_n1_7, [props=C08 xprops=C14 tier=manual cfg=x86std t=3600 role=find-iter-traversal uw=traverse:12;naive:10;@RK;@TWNEW;@TWOFF;with_ranker:6;oracle:6;@MEMCHR], 3, subiter::traverse::<1, 7>(false, false, 10));
inst!(fi_trav_n3_8, [props=C08 xprops=C14 tier=manual cfg=x86std t=3600 role=find-iter-traversal uw=traverse:13;naive:11;@RK;@TWNEW;@TWOFF;with_ranker:6;oracle:6;@PP], 3, subiter::traverse::<3, 8>(false, true, 11));
inst!(fri_trav_n3_8, [props=C08 xprops=C14 tier=manual cfg=x86std t=3600 role=rfind-iter-traversal uw=traverse:13;naive:11;@RK;@TWNEW;@TWOFF;with_ranker:6;oracle:6;@PP], 3, subiter::traverse::<3, 8>(true, true, 11));

// ---------------------------------------------------------------------------
// C16: a finder is a pure function of its needle

#[cfg(all(kani, not(vcfg_x86none)))]
pub mod purity {
    use super::*;

    /// Two searches with one finder; the second must meet the oracle for its
    /// own haystack.
    pub fn two_searches<const NLEN: usize, const H1: usize, const H2: usize>(mode: u8, rev: bool) {
        force(mode);
        let nb: [u8; NLEN] = kani::any();
        let nz1 = [0u8; 1];
        let n = place(crate::substr::nz(&nb, &nz1));
        let h1b: [u8; H1] = kani::any();
        let (h2b, h2len) = sym_hay::<H2>(0, H2);
        let h1 = place(&h1b[..]);
        let h2 = place(&h2b.0[..h2len]);
        if rev {
            let f = memmem::FinderRev::new(n);
            let _ = f.rfind(h1);
            let r = f.rfind(h2);
            check_rightmost(h2, n, r);
            assert!(f.needle().len() == NLEN, "oracle: needle() changed");
        } else {
            let f = memmem::Finder::new(n);
            let _ = f.find(h1);
            let r = f.find(h2);
            check_leftmost(h2, n, r);
            assert!(f.needle().len() == NLEN, "oracle: needle() changed");
            kani::cover!(r.is_some(), "second search finds an occurrence");
        }
        kani::cover!(true, "reached");
    }

    /// clone / as_ref / into_owned behave like the original, and the owned
    /// finder survives the original needle buffer.
    pub fn copies<const NLEN: usize, const HCAP: usize>(mode: u8, rev: bool, mask: u8) {
        force(mode);
        let (hb, hlen) = sym_hay::<HCAP>(0, HCAP);
        let h = place(&hb.0[..hlen]);
        let nb_outer: [u8; NLEN] = kani::any();
        if rev {
            let owned = {
                let nb_inner = nb_outer; // a separate buffer that dies at the end of this scope
                let f = memmem::FinderRev::new(&nb_inner[..]);
                let r0 = f.rfind(h);
                check_rightmost(h, &nb_inner[..], r0);
                if mask & 1 != 0 {
                    let c = f.clone();
                    assert!(c.rfind(h) == r0, "oracle: clone() answers differently");
                }
                if mask & 2 != 0 {
                    let a = f.as_ref();
                    assert!(a.rfind(h) == r0, "oracle: as_ref() answers differently");
                }
                let o = f.into_owned();
                assert!(o.rfind(h) == r0, "oracle: into_owned() answers differently");
                o
            };
            let r = owned.rfind(h);
            check_rightmost(h, &nb_outer[..], r);
            let nd = owned.needle();
            assert!(nd.len() == NLEN, "oracle: owned needle() length");
            let j: usize = kani::any();
            if j < NLEN {
                assert!(nd[j] == nb_outer[j], "oracle: owned needle() bytes differ from the construction needle");
            }
            core::mem::forget(owned);
        } else {
            let owned = {
                let nb_inner = nb_outer;
                let f = memmem::Finder::new(&nb_inner[..]);
                let r0 = f.find(h);
                check_leftmost(h, &nb_inner[..], r0);
                if mask & 1 != 0 {
                    let c = f.clone();
                    assert!(c.find(h) == r0, "oracle: clone() answers differently");
                }
                if mask & 2 != 0 {
                    let a = f.as_ref();
                    assert!(a.find(h) == r0, "oracle: as_ref() answers differently");
                }
                let o = f.into_owned();
                assert!(o.find(h) == r0, "oracle: into_owned() answers differently");
                o
            };
            let r = owned.find(h);
            check_leftmost(h, &nb_outer[..], r);
            let nd = owned.needle();
            assert!(nd.len() == NLEN, "oracle: owned needle() length");
            let j: usize = kani::any();
            if j < NLEN {
                assert!(nd[j] == nb_outer[j], "oracle: owned needle() bytes differ from the construction needle");
            }
            kani::cover!(r.is_some(), "owned finder finds an occurrence");
            core::mem::forget(owned);
        }
        kani::cover!(true, "reached");
    }

    /// Iterators cloned / converted to owned at an arbitrary state continue
    /// exactly like the original.
    pub fn iter_copies<const NLEN: usize, const HCAP: usize>(rev: bool) {
        force(1);
        let nb: [u8; NLEN] = kani::any();
        let nz1 = [0u8; 1];
        let n = place(crate::substr::nz(&nb, &nz1));
        let (hb, hlen) = sym_hay::<HCAP>(0, HCAP);
        let h = place(&hb.0[..hlen]);
        if rev {
            let some: bool = kani::any();
            let p: usize = kani::any();
            kani::assume(p <= hlen);
            let pos = if some { Some(p) } else { None };
            let mut it = memmem::FindRevIter::verif_from_state(h, memmem::FinderRev::new(n), pos);
            let mut c = it.clone();
            let mut o = it.clone().into_owned();
            assert!(c.verif_state() == pos && o.verif_state() == pos, "oracle: copy starts from another state");
            let (a1, b1, c1) = (it.next(), c.next(), o.next());
            assert!(a1 == b1 && a1 == c1, "oracle: copies of a reverse iterator diverge (step 1)");
            let (a2, b2, c2) = (it.next(), c.next(), o.next());
            assert!(a2 == b2 && a2 == c2, "oracle: copies of a reverse iterator diverge (step 2)");
            kani::cover!(!some, "copied in the exhausted state");
            kani::cover!(a2.is_some(), "two matches after the copy");
            core::mem::forget(o);
        } else {
            let pos: usize = kani::any();
            kani::assume(pos <= hlen + 1);
            let (skips, skipped): (u32, u32) = (kani::any(), kani::any());
            let mut it = memmem::FindIter::verif_from_state(h, memmem::Finder::new(n), pos, skips, skipped);
            let mut c = it.clone();
            let mut o = it.clone().into_owned();
            // only the position is behaviourally relevant; the prefilter
            // counters are a performance heuristic a copy may legitimately reset
            assert!(c.verif_state().0 == pos, "oracle: clone starts from another position");
            assert!(o.verif_state().0 == pos, "oracle: into_owned starts from another position");
            let (a1, b1, c1) = (it.next(), c.next(), o.next());
            assert!(a1 == b1 && a1 == c1, "oracle: copies of an iterator diverge (step 1)");
            let (a2, b2, c2) = (it.next(), c.next(), o.next());
            assert!(a2 == b2 && a2 == c2, "oracle: copies of an iterator diverge (step 2)");
            kani::cover!(pos == hlen + 1, "copied one past the end");
            kani::cover!(a2.is_some(), "two matches after the copy");
            core::mem::forget(o);
        }
    }
}

#[cfg(not(vcfg_x86none))]
inst!(pur_two_fwd_n2, [props=C16 xprops=C14 tier=quick cfg=x86std t=1500 role=two-searches uw=@RK;@TWNEW;@TWOFF;with_ranker:6;oracle:6;@PP;clone:6;from:6], 3, purity::two_searches::<2, 6, 8>(1, false));
#[cfg(not(vcfg_x86none))]
inst!(pur_two_rev_n2, [props=C16 xprops=C14 tier=quick cfg=x86std t=1500 role=two-searches uw=@RK;@TWNEW;@TWOFF;with_ranker:6;oracle:6;@PP;clone:6;from:6], 3, purity::two_searches::<2, 6, 8>(1, true));
#[cfg(not(vcfg_x86none))]
inst!(pur_copies_fwd_n2, [props=C16 xprops=C14 tier=thorough cfg=x86std t=1500 role=finder-copies uw=@RK;@TWNEW;@TWOFF;with_ranker:6;oracle:6;@PP;clone:6;from:6], 3, purity::copies::<2, 5>(1, false, 7));
#[cfg(not(vcfg_x86none))]
inst!(pur_copies_rev_n2, [props=C16 xprops=C14 tier=thorough cfg=x86std t=1500 role=finder-copies uw=@RK;@TWNEW;@TWOFF;with_ranker:6;oracle:6;@PP;clone:6;from:6], 3, purity::copies::<2, 5>(1, true, 7));
#[cfg(not(vcfg_x86none))]
inst!(pur_iter_copies_fwd_n0, [props=C16 xprops=C14 tier=quick cfg=x86std t=1500 role=iterator-copies uw=@RK;@TWNEW;@TWOFF;with_ranker:6;oracle:6;@PP;clone:6;from:6], 3, purity::iter_copies::<0, 6>(false));
#[cfg(not(vcfg_x86none))]
inst!(pur_iter_copies_rev_n0, [props=C16 xprops=C14 tier=quick cfg=x86std t=1500 role=iterator-copies uw=@RK;@TWNEW;@TWOFF;with_ranker:6;oracle:6;@PP;clone:6;from:6], 3, purity::iter_copies::<0, 6>(true));
#[cfg(not(vcfg_x86none))]
inst!(pur_iter_copies_fwd_n2, [props=C16 xprops=C14 tier=manual cfg=x86std t=1500 role=iterator-copies uw=@RK;@TWNEW;@TWOFF;with_ranker:6;oracle:6;@PP;clone:6;from:6], 3, purity::iter_copies::<2, 5>(false));
#[cfg(not(vcfg_x86none))]
inst!(pur_iter_copies_rev_n2, [props=C16 xprops=C14 tier=thorough cfg=x86std t=1500 role=iterator-copies uw=@RK;@TWNEW;@TWOFF;with_ranker:6;oracle:6;@PP;clone:6;from:6], 3, purity::iter_copies::<2, 5>(true));

// ---------------------------------------------------------------------------
// C14: exactness of the documented packed-pair panic

#[cfg(all(kani, any(vcfg_x86std, vcfg_x86none, vcfg_x86alloc, vcfg_x86avx2, vcfg_x86rel)))]
pub mod panics {
    use super::*;
    use memchr::arch::all::packedpair::Pair;
    use memchr::arch::x86_64::{avx2, sse2};

    /// Below min_haystack_len every path must panic (the harness is a
    /// *witness*: it must fail with the documented message and the trailing
    /// assertion must stay unreachable); at or above it nothing may fail.
    pub fn below_min<const NLEN: usize, const HCAP: usize>(isa: u8, prefilter: bool, at_least_needle: bool) {
        let nb: [u8; NLEN] = kani::any();
        let nz1 = [0u8; 1];
        let n = place(crate::substr::nz(&nb, &nz1));
        let (i1, i2): (u8, u8) = (kani::any(), kani::any());
        let pair = match Pair::with_indices(n, i1, i2) {
            None => return,
            Some(p) => p,
        };
        // `at_least_needle`: only haystacks at least as long as the needle, so
        // that a finder that fails to panic necessarily goes on to load from
        // in front of the haystack (used for C05: Kani cuts a path at the
        // first out-of-bounds pointer computation, and the native guard-page
        // replay must then be given an input that really reads).
        let (hb, hlen) = sym_hay::<HCAP>(if at_least_needle { NLEN } else { 0 }, HCAP);
        let h = place(&hb.0[..hlen]);
        if isa == 0 {
            let f = sse2::packedpair::Finder::with_pair(n, pair).unwrap();
            kani::assume(hlen < f.min_haystack_len());
            let _ = if prefilter { f.find_prefilter(h) } else { f.find(h, n) };
        } else if isa == 1 {
            force(2);
            let f = avx2::packedpair::Finder::with_pair(n, pair).unwrap();
            kani::assume(hlen < f.min_haystack_len());
            let _ = if prefilter { f.find_prefilter(h) } else { f.find(h, n) };
        } else {
            let f = memchr::verif::SmallPacked::<4>::new(n, pair);
            kani::assume(hlen < f.min_haystack_len());
            let _ = if prefilter { f.find_prefilter(h) } else { f.find(h, n) };
        }
        assert!(false, "oracle: packed-pair finder returned normally below min_haystack_len");
    }
}

#[cfg(any(vcfg_x86std, vcfg_x86none, vcfg_x86alloc, vcfg_x86avx2, vcfg_x86rel))]
inst!(panic_below_min_sse2_find, [props=C14+C05 tier=quick cfg=x86std+x86rel t=900 role=documented-panic-exactness expect=failat:arch/generic/packedpair.rs], 6, panics::below_min::<3, 20>(0, false, false));
#[cfg(any(vcfg_x86std, vcfg_x86none, vcfg_x86alloc, vcfg_x86avx2, vcfg_x86rel))]
inst!(panic_below_min_sse2_pre, [props=C14+C05 tier=quick cfg=x86std+x86rel t=900 role=documented-panic-exactness expect=failat:arch/generic/packedpair.rs], 6, panics::below_min::<3, 20>(0, true, false));
#[cfg(any(vcfg_x86std, vcfg_x86none, vcfg_x86alloc, vcfg_x86avx2, vcfg_x86rel))]
inst!(panic_below_min_avx2_find, [props=C14+C05 tier=quick cfg=x86std+x86rel t=900 role=documented-panic-exactness expect=failat:arch/generic/packedpair.rs], 6, panics::below_min::<3, 20>(1, false, false));
#[cfg(any(vcfg_x86std, vcfg_x86none, vcfg_x86alloc, vcfg_x86avx2, vcfg_x86rel))]
inst!(panic_below_min_g4_pre, [props=C14+C05 tier=quick cfg=x86std+x86rel t=900 role=documented-panic-exactness expect=failat:arch/generic/packedpair.rs], 6, panics::below_min::<3, 8>(2, true, false));

// ---------------------------------------------------------------------------
// C05: safe calls whose needle differs from the construction needle. Only
// loads are judged here (wrong answers and panics are allowed by the
// property); C05's class filter ignores everything but memory-safety checks.

#[cfg(kani)]
pub mod mismatch {
    use super::*;
    use memchr::arch::all::packedpair::Pair;
    use memchr::arch::all::{rabinkarp, twoway};

    pub fn twoway_other_needle<const N1: usize, const N2MAX: usize, const HMAX: usize>(rev: bool) {
        let n1: [u8; N1] = kani::any();
        let n2b: [u8; N2MAX] = kani::any();
        let n2len: usize = kani::any();
        kani::assume(n2len <= N2MAX);
        let n2 = place(&n2b[..n2len]);
        let (hb, hlen) = sym_hay::<HMAX>(0, HMAX);
        let h = place(&hb.0[..hlen]);
        if rev {
            let _ = twoway::FinderRev::new(&n1).rfind(h, n2);
        } else {
            let _ = twoway::Finder::new(&n1).find(h, n2);
        }
        kani::cover!(n2len > hlen, "other needle longer than the haystack");
    }

    pub fn rabinkarp_other_needle<const N1: usize, const N2MAX: usize, const HMAX: usize>(rev: bool) {
        let n1: [u8; N1] = kani::any();
        let n2b: [u8; N2MAX] = kani::any();
        let n2len: usize = kani::any();
        kani::assume(n2len <= N2MAX);
        let n2 = place(&n2b[N2MAX - n2len..]);
        let (hb, hlen) = sym_hay::<HMAX>(0, HMAX);
        let h = place(&hb.0[..hlen]);
        if rev {
            let _ = rabinkarp::FinderRev::new(&n1).rfind(h, n2);
        } else {
            let _ = rabinkarp::Finder::new(&n1).find(h, n2);
        }
        kani::cover!(n2len > hlen, "other needle longer than the haystack");
        kani::cover!(n2len < N1 && n2len > 0, "shorter other needle");
    }

    /// Packed pair at 4 lanes with a needle other than the construction
    /// needle (region-checked loads), haystack >= min_haystack_len.
    pub fn packed_other_needle<const N1: usize, const N2MAX: usize, const HCAP: usize>() {
        let n1: [u8; N1] = kani::any();
        let (i1, i2): (u8, u8) = (kani::any(), kani::any());
        let pair = match Pair::with_indices(&n1, i1, i2) {
            None => return,
            Some(p) => p,
        };
        let n2b: [u8; N2MAX] = kani::any();
        let n2len: usize = kani::any();
        kani::assume(n2len <= N2MAX);
        let n2 = &n2b[N2MAX - n2len..];
        let f = memchr::verif::SmallPacked::<4>::new(&n1, pair);
        let (hb, hlen) = sym_hay::<HCAP>(0, HCAP);
        kani::assume(hlen >= f.min_haystack_len());
        let h = &hb.0[..hlen];
        unsafe { memchr::verif::set_region(h.as_ptr(), hlen) };
        let _ = f.find(h, n2);
        unsafe { memchr::verif::clear_region() };
        kani::cover!(n2len > hlen, "other needle longer than the haystack");
        kani::cover!(n2len > 0 && n2len < N1, "shorter other needle");
    }
}

inst!(mm_twoway_fwd, [props=C05 tier=quick cfg=x86std t=1500 role=mismatched-needle], 9, mismatch::twoway_other_needle::<3, 5, 6>(false));
inst!(mm_twoway_rev, [props=C05 tier=quick cfg=x86std t=1500 role=mismatched-needle], 9, mismatch::twoway_other_needle::<3, 5, 6>(true));
inst!(mm_rk_fwd, [props=C05 tier=quick cfg=x86std t=1500 role=mismatched-needle], 9, mismatch::rabinkarp_other_needle::<3, 6, 6>(false));
inst!(mm_rk_rev, [props=C05 tier=quick cfg=x86std t=1500 role=mismatched-needle], 9, mismatch::rabinkarp_other_needle::<3, 6, 6>(true));
inst!(mm_packed_g4, [props=C05 tier=quick cfg=x86std t=1500 role=mismatched-needle], 9, mismatch::packed_other_needle::<2, 4, 7>());

// C10: nondeterministic ranker x both prefilter settings
inst!(rank_n2_sse2, [props=C10+C03 xprops=C14 tier=quick cfg=x86std t=1800 role=nondet-ranker-packed uw=@RK;@TWNEW;@TWOFF;with_ranker:6;oracle:6;@PP], 3,
    finder_nondet_ranker::<2, 20>(1, 0, 20));
inst!(rank_n3_sse2, [props=C10+C03 xprops=C14 tier=thorough cfg=x86std t=1800 role=nondet-ranker-packed uw=@RK;@TWNEW;@TWOFF;with_ranker:6;oracle:6;@PP], 3,
    finder_nondet_ranker::<3, 20>(1, 0, 20));
inst!(rank_n4_sse2, [props=C10+C03 xprops=C14 tier=manual cfg=x86std t=3600 role=nondet-ranker-packed uw=@RK;@TWNEW;@TWOFF;with_ranker:6;oracle:6;@PP], 3,
    finder_nondet_ranker::<4, 22>(1, 0, 22));
inst!(rank_n2_nosimd_rk, [props=C10+C03 xprops=C14 tier=quick cfg=generic t=1800 role=nondet-ranker-nosimd uw=@RK;@TWNEW;@TWOFF;with_ranker:6;oracle:6;find_prefilter.0:2;@MEMCHR], 3,
    finder_nondet_ranker::<2, 9>(0, 0, 9));
inst!(rank_n2_nosimd_tw, [props=C10+C03 xprops=C14 tier=manual cfg=generic t=7200 role=nondet-ranker-nosimd uw=@RK;@TW:2:17;with_ranker:6;oracle:6;find_prefilter.0:19;@MEMCHR], 3,
    finder_nondet_ranker::<2, 17>(0, 16, 17));

#[cfg(not(vcfg_x86none))]
inst!(pur_copies_fwd_n0, [props=C16 xprops=C14 tier=quick cfg=x86std t=1500 role=finder-copies uw=@RK;@TWNEW;@TWOFF;with_ranker:6;oracle:6;@PP;clone:6;from:6], 3, purity::copies::<0, 5>(1, false, 7));
#[cfg(not(vcfg_x86none))]
inst!(pur_copies_rev_n0, [props=C16 xprops=C14 tier=quick cfg=x86std t=1500 role=finder-copies uw=@RK;@TWNEW;@TWOFF;with_ranker:6;oracle:6;@PP;clone:6;from:6], 3, purity::copies::<0, 5>(1, true, 7));
#[cfg(not(vcfg_x86none))]
inst!(pur_owned_fwd_n2, [props=C16 xprops=C14 tier=quick cfg=x86std t=1500 role=finder-owned-outlives-needle uw=@RK;@TWNEW;@TWOFF;with_ranker:6;oracle:6;@PP;clone:6;from:6], 3, purity::copies::<2, 4>(1, false, 4));
#[cfg(not(vcfg_x86none))]
inst!(pur_clone_fwd_n2, [props=C16 xprops=C14 tier=thorough cfg=x86std t=1500 role=finder-clone uw=@RK;@TWNEW;@TWOFF;with_ranker:6;oracle:6;@PP;clone:6;from:6], 3, purity::copies::<2, 3>(1, false, 3));
#[cfg(not(vcfg_x86none))]
inst!(pur_clone_rev_n2, [props=C16 xprops=C14 tier=thorough cfg=x86std t=1500 role=finder-clone uw=@RK;@TWNEW;@TWOFF;with_ranker:6;oracle:6;@PP;clone:6;from:6], 3, purity::copies::<2, 4>(1, true, 1));

#[cfg(any(vcfg_x86std, vcfg_x86none, vcfg_x86alloc, vcfg_x86avx2, vcfg_x86rel))]
inst!(below_min_reads_sse2_find, [props=C05 tier=quick cfg=x86rel t=900 role=no-read-below-min-haystack-len expect=failat:arch/generic/packedpair.rs], 6, panics::below_min::<3, 20>(0, false, true));
#[cfg(any(vcfg_x86std, vcfg_x86none, vcfg_x86alloc, vcfg_x86avx2, vcfg_x86rel))]
inst!(below_min_reads_sse2_pre, [props=C05 tier=quick cfg=x86rel t=900 role=no-read-below-min-haystack-len expect=failat:arch/generic/packedpair.rs], 6, panics::below_min::<3, 20>(0, true, true));
#[cfg(any(vcfg_x86std, vcfg_x86none, vcfg_x86alloc, vcfg_x86avx2, vcfg_x86rel))]
inst!(below_min_reads_avx2_pre, [props=C05 tier=quick cfg=x86rel t=900 role=no-read-below-min-haystack-len expect=failat:arch/generic/packedpair.rs], 6, panics::below_min::<3, 20>(1, true, true));
