//! NEON and wasm simd128 backends, reached by compiling a cfg-rewritten copy
//! of /repo's current source against modelled intrinsics (/verif/emul).

use crate::oracle::*;
use crate::place::{place, Buf};

macro_rules! backend_harnesses {
    ($modname:ident, $cfg:meta, $memchr:path, $packed:path) => {
        #[cfg(all(kani, $cfg))]
        pub mod $modname {
            use super::*;
            use $memchr as bm;
            use $packed as bp;

            pub fn find<const CAP: usize>(which: u8, rev: bool, min: usize, max: usize) {
                let (buf, off, len) = crate::bytesearch::sym_window::<CAP>(min, max, 16);
                let h = place(&buf.0[off..off + len]);
                let (n1, n2, n3): (u8, u8, u8) = (kani::any(), kani::any(), kani::any());
                let ri = match (which, rev) {
                    (1, false) => bm::One::new(n1).unwrap().find(h),
                    (1, true) => bm::One::new(n1).unwrap().rfind(h),
                    (2, false) => bm::Two::new(n1, n2).unwrap().find(h),
                    (2, true) => bm::Two::new(n1, n2).unwrap().rfind(h),
                    (3, false) => bm::Three::new(n1, n2, n3).unwrap().find(h),
                    _ => bm::Three::new(n1, n2, n3).unwrap().rfind(h),
                };
                let p = move |b: u8| b == n1 || (which >= 2 && b == n2) || (which >= 3 && b == n3);
                if rev {
                    check_last(h, ri, p);
                } else {
                    check_first(h, ri, p);
                }
                kani::cover!(ri.is_none() && len == max, "no match at max length");
                kani::cover!(matches!(ri, Some(i) if i + 1 == len) && len == max && off == 15, "match in last byte, max misalignment");
            }

            /// The top-level functions are wired to this backend (concrete
            /// length, contents symbolic).
            pub fn top_wiring<const LEN: usize>() {
                let b = Buf::<LEN>::any();
                let h = place(&b.0[..]);
                let (n1, n2, n3): (u8, u8, u8) = (kani::any(), kani::any(), kani::any());
                check_first(h, memchr::memchr(n1, h), |b| b == n1);
                check_last(h, memchr::memrchr(n1, h), |b| b == n1);
                check_first(h, memchr::memchr2(n1, n2, h), |b| b == n1 || b == n2);
                check_last(h, memchr::memrchr2(n1, n2, h), |b| b == n1 || b == n2);
                check_first(h, memchr::memchr3(n1, n2, n3, h), |b| b == n1 || b == n2 || b == n3);
                check_last(h, memchr::memrchr3(n1, n2, n3, h), |b| b == n1 || b == n2 || b == n3);
                let c = memchr::memchr_iter(n1, h).count();
                assert!(c == crate::oracle::count(h, |b| b == n1), "oracle: count differs from the number of matching bytes");
                kani::cover!(c > 1, "several matches");
            }

            pub fn count<const CAP: usize>(min: usize, max: usize) {
                let (buf, off, len) = crate::bytesearch::sym_window::<CAP>(min, max, 16);
                let h = place(&buf.0[off..off + len]);
                let n1: u8 = kani::any();
                let r = bm::One::new(n1).unwrap().count(h);
                assert!(r == crate::oracle::count(h, |b| b == n1), "oracle: count differs from the number of matching bytes");
                kani::cover!(r == len && len == max, "every byte matches at max length");
            }

            pub fn packed<const NLEN: usize, const HLEN: usize>(prefilter: bool) {
                use memchr::arch::all::packedpair::Pair;
                let nb: [u8; NLEN] = kani::any();
                let n = place(&nb[..]);
                let (i1, i2): (u8, u8) = (kani::any(), kani::any());
                let pair = match Pair::with_indices(n, i1, i2) {
                    None => return,
                    Some(p) => p,
                };
                let hb: [u8; HLEN] = kani::any();
                let h = place(&hb[..]);
                let f = bp::Finder::with_pair(n, pair).unwrap();
                if HLEN < f.min_haystack_len() {
                    return;
                }
                if prefilter {
                    let r = f.find_prefilter(h);
                    crate::substr::check_prefilter_contract(h, n, i1 as usize, i2 as usize, r, true);
                    kani::cover!(r.is_none(), "none");
                } else {
                    let r = f.find(h, n);
                    check_leftmost(h, n, r);
                    kani::cover!(matches!(r, Some(c) if c + NLEN == HLEN) && i1 > i2, "at the very end, index1 > index2");
                }
            }

            /// memmem::Finder is wired to this backend's packed-pair searcher.
            pub fn finder<const NLEN: usize, const HCAP: usize>(hmin: usize, hmax: usize) {
                let nb: [u8; NLEN] = kani::any();
                let n = place(&nb[..]);
                let (hb, hlen) = crate::substr::sym_hay::<HCAP>(hmin, hmax);
                let h = place(&hb.0[..hlen]);
                let f = memchr::memmem::Finder::new(n);
                assert!(f.verif_strategy() == 4, "oracle: short needle must use the vector searcher on this backend");
                let r = f.find(h);
                check_leftmost(h, n, r);
                kani::cover!(r.is_none() && hlen == hmax, "no occurrence at max length");
                kani::cover!(matches!(r, Some(i) if i + NLEN == hlen) && hlen == hmax, "occurrence at the very end");
            }
        }
    };
}

backend_harnesses!(neon, vcfg_neon, memchr::arch::aarch64::neon::memchr, memchr::arch::aarch64::neon::packedpair);
backend_harnesses!(simd128, vcfg_simd128, memchr::arch::wasm32::simd128::memchr, memchr::arch::wasm32::simd128::packedpair);

#[cfg(vcfg_neon)]
inst!(neon_one_find, [props=C01+C09 xprops=C05+C14 tier=quick cfg=neon t=1800 role=neon-find uw=verif_emul:17;find_raw.0:2;find_raw.1:4;byte_by_byte:17], 3,
    neon::find::<35>(1, false, 0, 20));
#[cfg(vcfg_neon)]
inst!(neon_one_find_40, [props=C01+C09 xprops=C05+C14 tier=thorough cfg=neon t=5400 role=neon-find uw=verif_emul:17;find_raw.0:2;find_raw.1:4;byte_by_byte:17], 3,
    neon::find::<55>(1, false, 0, 40));
#[cfg(vcfg_neon)]
inst!(neon_one_rfind, [props=C02+C09 xprops=C05+C14 tier=quick cfg=neon t=1800 role=neon-rfind uw=verif_emul:17;rfind_raw.0:2;rfind_raw.1:4;byte_by_byte:17], 3,
    neon::find::<35>(1, true, 0, 20));
#[cfg(vcfg_neon)]
inst!(neon_one_rfind_40, [props=C02+C09 xprops=C05+C14 tier=thorough cfg=neon t=5400 role=neon-rfind uw=verif_emul:17;rfind_raw.0:2;rfind_raw.1:4;byte_by_byte:17], 3,
    neon::find::<55>(1, true, 0, 40));
#[cfg(vcfg_neon)]
inst!(neon_two_find, [props=C01+C09 xprops=C05+C14 tier=thorough cfg=neon t=1800 role=neon-find uw=verif_emul:17;find_raw.0:2;find_raw.1:4;byte_by_byte:17], 3,
    neon::find::<35>(2, false, 0, 20));
#[cfg(vcfg_neon)]
inst!(neon_two_rfind, [props=C02+C09 xprops=C05+C14 tier=thorough cfg=neon t=1800 role=neon-rfind uw=verif_emul:17;rfind_raw.0:2;rfind_raw.1:4;byte_by_byte:17], 3,
    neon::find::<35>(2, true, 0, 20));
#[cfg(vcfg_neon)]
inst!(neon_three_find, [props=C01+C09 xprops=C05+C14 tier=quick cfg=neon t=1800 role=neon-find uw=verif_emul:17;find_raw.0:2;find_raw.1:4;byte_by_byte:17], 3,
    neon::find::<35>(3, false, 0, 20));
#[cfg(vcfg_neon)]
inst!(neon_three_find_40, [props=C01+C09 xprops=C05+C14 tier=thorough cfg=neon t=5400 role=neon-find uw=verif_emul:17;find_raw.0:2;find_raw.1:4;byte_by_byte:17], 3,
    neon::find::<55>(3, false, 0, 40));
#[cfg(vcfg_neon)]
inst!(neon_three_rfind, [props=C02+C09 xprops=C05+C14 tier=quick cfg=neon t=1800 role=neon-rfind uw=verif_emul:17;rfind_raw.0:2;rfind_raw.1:4;byte_by_byte:17], 3,
    neon::find::<35>(3, true, 0, 20));
#[cfg(vcfg_neon)]
inst!(neon_three_rfind_40, [props=C02+C09 xprops=C05+C14 tier=thorough cfg=neon t=5400 role=neon-rfind uw=verif_emul:17;rfind_raw.0:2;rfind_raw.1:4;byte_by_byte:17], 3,
    neon::find::<55>(3, true, 0, 40));
#[cfg(vcfg_neon)]
inst!(neon_one_count, [props=C07+C09 xprops=C05+C14 tier=quick cfg=neon t=1800 role=neon-count uw=verif_emul:17;count_raw.0:2;count_raw.1:4;byte_by_byte:17;oracle::count:22], 3,
    neon::count::<35>(0, 20));
#[cfg(vcfg_neon)]
inst!(neon_packed_find_n3, [props=C12+C09 xprops=C05+C14 tier=quick cfg=neon t=1800 role=neon-packedpair-find uw=verif_emul:17;find_in_chunk:18;is_equal_raw:3;packedpair::Finder:4], 5,
    neon::packed::<3, 34>(false));
#[cfg(vcfg_neon)]
inst!(neon_packed_pre_n3, [props=C11+C09 xprops=C05+C14 tier=quick cfg=neon t=1800 role=neon-packedpair-prefilter uw=verif_emul:17;packedpair::Finder:4], 5,
    neon::packed::<3, 34>(true));
#[cfg(vcfg_neon)]
inst!(neon_finder_n2, [props=C03+C09 xprops=C05+C14 tier=quick cfg=neon t=1800 role=neon-finder uw=verif_emul:17;find_in_chunk:18;is_equal_raw:3;packedpair::Finder:3;rabinkarp::Finder::find_raw:22;Hash:5;rabinkarp::Finder::new:5;with_ranker:5;oracle:4], 4,
    neon::finder::<2, 20>(0, 20));
#[cfg(vcfg_simd128)]
inst!(simd128_one_find, [props=C01+C09 xprops=C05+C14 tier=quick cfg=simd128 t=1800 role=simd128-find uw=verif_emul:17;find_raw.0:2;find_raw.1:4;byte_by_byte:17], 3,
    simd128::find::<35>(1, false, 0, 20));
#[cfg(vcfg_simd128)]
inst!(simd128_one_find_40, [props=C01+C09 xprops=C05+C14 tier=thorough cfg=simd128 t=5400 role=simd128-find uw=verif_emul:17;find_raw.0:2;find_raw.1:4;byte_by_byte:17], 3,
    simd128::find::<55>(1, false, 0, 40));
#[cfg(vcfg_simd128)]
inst!(simd128_one_rfind, [props=C02+C09 xprops=C05+C14 tier=quick cfg=simd128 t=1800 role=simd128-rfind uw=verif_emul:17;rfind_raw.0:2;rfind_raw.1:4;byte_by_byte:17], 3,
    simd128::find::<35>(1, true, 0, 20));
#[cfg(vcfg_simd128)]
inst!(simd128_one_rfind_40, [props=C02+C09 xprops=C05+C14 tier=thorough cfg=simd128 t=5400 role=simd128-rfind uw=verif_emul:17;rfind_raw.0:2;rfind_raw.1:4;byte_by_byte:17], 3,
    simd128::find::<55>(1, true, 0, 40));
#[cfg(vcfg_simd128)]
inst!(simd128_two_find, [props=C01+C09 xprops=C05+C14 tier=thorough cfg=simd128 t=1800 role=simd128-find uw=verif_emul:17;find_raw.0:2;find_raw.1:4;byte_by_byte:17], 3,
    simd128::find::<35>(2, false, 0, 20));
#[cfg(vcfg_simd128)]
inst!(simd128_two_rfind, [props=C02+C09 xprops=C05+C14 tier=thorough cfg=simd128 t=1800 role=simd128-rfind uw=verif_emul:17;rfind_raw.0:2;rfind_raw.1:4;byte_by_byte:17], 3,
    simd128::find::<35>(2, true, 0, 20));
#[cfg(vcfg_simd128)]
inst!(simd128_three_find, [props=C01+C09 xprops=C05+C14 tier=quick cfg=simd128 t=1800 role=simd128-find uw=verif_emul:17;find_raw.0:2;find_raw.1:4;byte_by_byte:17], 3,
    simd128::find::<35>(3, false, 0, 20));
#[cfg(vcfg_simd128)]
inst!(simd128_three_find_40, [props=C01+C09 xprops=C05+C14 tier=thorough cfg=simd128 t=5400 role=simd128-find uw=verif_emul:17;find_raw.0:2;find_raw.1:4;byte_by_byte:17], 3,
    simd128::find::<55>(3, false, 0, 40));
#[cfg(vcfg_simd128)]
inst!(simd128_three_rfind, [props=C02+C09 xprops=C05+C14 tier=quick cfg=simd128 t=1800 role=simd128-rfind uw=verif_emul:17;rfind_raw.0:2;rfind_raw.1:4;byte_by_byte:17], 3,
    simd128::find::<35>(3, true, 0, 20));
#[cfg(vcfg_simd128)]
inst!(simd128_three_rfind_40, [props=C02+C09 xprops=C05+C14 tier=thorough cfg=simd128 t=5400 role=simd128-rfind uw=verif_emul:17;rfind_raw.0:2;rfind_raw.1:4;byte_by_byte:17], 3,
    simd128::find::<55>(3, true, 0, 40));
#[cfg(vcfg_simd128)]
inst!(simd128_one_count, [props=C07+C09 xprops=C05+C14 tier=quick cfg=simd128 t=1800 role=simd128-count uw=verif_emul:17;count_raw.0:2;count_raw.1:4;byte_by_byte:17;oracle::count:22], 3,
    simd128::count::<35>(0, 20));
#[cfg(vcfg_simd128)]
inst!(simd128_packed_find_n3, [props=C12+C09 xprops=C05+C14 tier=quick cfg=simd128 t=1800 role=simd128-packedpair-find uw=verif_emul:17;find_in_chunk:18;is_equal_raw:3;packedpair::Finder:4], 5,
    simd128::packed::<3, 34>(false));
#[cfg(vcfg_simd128)]
inst!(simd128_packed_pre_n3, [props=C11+C09 xprops=C05+C14 tier=quick cfg=simd128 t=1800 role=simd128-packedpair-prefilter uw=verif_emul:17;packedpair::Finder:4], 5,
    simd128::packed::<3, 34>(true));
#[cfg(vcfg_simd128)]
inst!(simd128_finder_n2, [props=C03+C09 xprops=C05+C14 tier=quick cfg=simd128 t=1800 role=simd128-finder uw=verif_emul:17;find_in_chunk:18;is_equal_raw:3;packedpair::Finder:3;rabinkarp::Finder::find_raw:22;Hash:5;rabinkarp::Finder::new:5;with_ranker:5;oracle:4], 4,
    simd128::finder::<2, 20>(0, 20));
#[cfg(vcfg_neon)]
inst!(neon_top_wiring_20, [props=C01+C02+C07+C09 xprops=C05+C14 tier=quick cfg=neon t=1800 role=neon-top-level-wiring uw=verif_emul:17;find_raw.0:2;find_raw.1:3;count_raw.0:2;count_raw.1:3;byte_by_byte:17;oracle::count:22], 3,
    neon::top_wiring::<20>());
#[cfg(vcfg_simd128)]
inst!(simd128_top_wiring_20, [props=C01+C02+C07+C09 xprops=C05+C14 tier=quick cfg=simd128 t=1800 role=simd128-top-level-wiring uw=verif_emul:17;find_raw.0:2;find_raw.1:3;count_raw.0:2;count_raw.1:3;byte_by_byte:17;oracle::count:22], 3,
    simd128::top_wiring::<20>());
