//! NEON and wasm simd128 backends, reached by compiling a cfg-rewritten copy
//! of /repo's current source against modelled intrinsics (/verif/emul).

use crate::oracle::*;
use crate::place::{place, Buf};

macro_rules! backend_harnesses {
    ($modname:ident, $cfg:meta, $memchr:path, $packed:path) => {
        #[cfg(all(kani, $cfg))]
        pub mod $modname {
            use super::*;
            use $memchr as bm;
            use $packed as bp;

            pub fn find<const CAP: usize>(which: u8, rev: bool, min: usize, max: usize) {
                let (buf, off, len) = crate::bytesearch::sym_window::<CAP>(min, max, 16);
                let h = place(&buf.0[off..off + len]);
                let (n1, n2, n3): (u8, u8, u8) = (kani::any(), kani::any(), kani::any());
                let ri = match (which, rev) {
                    (1, false) => bm::One::new(n1).unwrap().find(h),
                    (1, true) => bm::One::new(n1).unwrap().rfind(h),
                    (2, false) => bm::Two::new(n1, n2).unwrap().find(h),
                    (2, true) => bm::Two::new(n1, n2).unwrap().rfind(h),
                    (3, false) => bm::Three::new(n1, n2, n3).unwrap().find(h),
                    _ => bm::Three::new(n1, n2, n3).unwrap().rfind(h),
                };
                let p = move |b: u8| b == n1 || (which >= 2 && b == n2) || (which >= 3 && b == n3);
                if rev {
                    check_last(h, ri, p);
                } else {
                    check_first(h, ri, p);
                }
                kani::cover!(ri.is_none() && len == max, "no match at max length");
                kani::cover!(matches!(ri, Some(i) if i + 1 == len) && len == max && off == 15, "match in last byte, max misalignment");
            }

            /// The top-level functions are wired to this backend (concrete
            /// length, contents symbolic).
            pub fn top_wiring<const LEN: usize>() {
                let b = Buf::<LEN>::any();
                let h = place(&b.0[..]);
                let (n1, n2, n3): (u8, u8, u8) = (kani::any(), kani::any(), kani::any());
                check_first(h, memchr::memchr(n1, h), |b| b == n1);
                check_last(h, memchr::memrchr(n1, h), |b| b == n1);
                check_first(h, memchr::memchr2(n1, n2, h), |b| b == n1 || b == n2);
                check_last(h, memchr::memrchr2(n1, n2, h), |b| b == n1 || b == n2);
                check_first(h, memchr::memchr3(n1, n2, n3, h), |b| b == n1 || b == n2 || b == n3);
                check_last(h, memchr::memrchr3(n1, n2, n3, h), |b| b == n1 || b == n2 || b == n3);
                let c = memchr::memchr_iter(n1, h).count();
                assert!(c == crate::oracle::count(h, |b| b == n1), "oracle: count differs from the number of matching bytes");
                kani::cover!(c > 1, "several matches");
            }

            pub fn count<const CAP: usize>(min: usize, max: usize) {
                let (buf, off, len) = crate::bytesearch::sym_window::<CAP>(min, max, 16);
                let h = place(&buf.0[off..off + len]);
                let n1: u8 = kani::any();
                let r = bm::One::new(n1).unwrap().count(h);
                assert!(r == crate::oracle::count(h, |b| b == n1), "oracle: count differs from the number of matching bytes");
                kani::cover!(r == len && len == max, "every byte matches at max length");
            }

            pub fn packed<const NLEN: usize, const HLEN: usize>(prefilter: bool) {
                use memchr::arch::all::packedpair::Pair;
                let nb: [u8; NLEN] = kani::any();
                let n = place(&nb[..]);
                let (i1, i2): (u8, u8) = (kani::any(), kani::any());
                let pair = match Pair::with_indices(n, i1, i2) {
                    None => return,
                    Some(p) => p,
                };
                let hb: [u8; HLEN] = kani::any();
                let h = place(&hb[..]);
                let f = bp::Finder::with_pair(n, pair).unwrap();
                if HLEN < f.min_haystack_len() {
                    return;
                }
                if prefilter {
                    let r = f.find_prefilter(h);
                    crate::substr::check_prefilter_contract(h, n, i1 as usize, i2 as usize, r, true);
                    kani::cover!(r.is_none(), "none");
                } else {
                    let r = f.find(h, n);
                    check_leftmost(h, n, r);
                    kani::cover!(matches!(r, Some(c) if c + NLEN == HLEN) && i1 > i2, "at the very end, index1 > index2");
                }
            }

            /// memmem::Finder is wired to this backend's packed-pair searcher.
            pub fn finder<const NLEN: usize, const HCAP: usize>(hmin: usize, hmax: usize) {
                let nb: [u8; NLEN] = kani::any();
                let n = place(&nb[..]);
                let (hb, hlen) = crate::substr::sym_hay::<HCAP>(hmin, hmax);
                let h = place(&hb.0[..hlen]);
                let f = memchr::memmem::Finder::new(n);
                // routing is an internal choice: observed for coverage, not asserted
                kani::cover!(f.verif_strategy() == 4, "short needle served by this backend's vector searcher");
                let r = f.find(h);
                check_leftmost(h, n, r);
                kani::cover!(r.is_none() && hlen == hmax, "no occurrence at max length");
                kani::cover!(matches!(r, Some(i) if i + NLEN == hlen) && hlen == hmax, "occurrence at the very end");
            }
        }
    };
}

backend_harnesses!(neon, vcfg_neon, memchr::arch::aarch64::neon::memchr, memchr::arch::aarch64::neon::packedpair);
backend_harnesses!(simd128, vcfg_simd128, memchr::arch::wasm32::simd128::memchr, memchr::arch::wasm32::simd128::packedpair);

#[cfg(vcfg_neon)]
inst!(neon_one_find, [props=C01+C09 xprops=C05+C14 tier=quick cfg=neon t=1800 role=neon-find uw=verif_emul:17;find_raw.0:2;find_raw.1:4;byte_by_byte:17], 3,
    neon::find::<32>(1, false, 0, 17));
#[cfg(vcfg_neon)]
inst!(neon_one_find_40, [props=C01+C09 xprops=C05+C14 tier=thorough cfg=neon t=5400 role=neon-find uw=verif_emul:17;find_raw.0:2;find_raw.1:4;byte_by_byte:17], 3,
    neon::find::<55>(1, false, 0, 40));
#[cfg(vcfg_neon)]
inst!(neon_one_rfind, [props=C02+C09 xprops=C05+C14 tier=quick cfg=neon t=1800 role=neon-rfind uw=verif_emul:17;rfind_raw.0:2;rfind_raw.1:4;byte_by_byte:17], 3,
    neon::find::<32>(1, true, 0, 17));
#[cfg(vcfg_neon)]
inst!(neon_one_rfind_40, [props=C02+C09 xprops=C05+C14 tier=thorough cfg=neon t=5400 role=neon-rfind uw=verif_emul:17;rfind_raw.0:2;rfind_raw.1:4;byte_by_byte:17], 3,
    neon::find::<55>(1, true, 0, 40));
#[cfg(vcfg_neon)]
inst!(neon_two_find, [props=C01+C09 xprops=C05+C14 tier=thorough cfg=neon t=1800 role=neon-find uw=verif_emul:17;find_raw.0:2;find_raw.1:4;byte_by_byte:17], 3,
    neon::find::<32>(2, false, 0, 17));
#[cfg(vcfg_neon)]
inst!(neon_two_rfind, [props=C02+C09 xprops=C05+C14 tier=thorough cfg=neon t=1800 role=neon-rfind uw=verif_emul:17;rfind_raw.0:2;rfind_raw.1:4;byte_by_byte:17], 3,
    neon::find::<32>(2, true, 0, 17));
#[cfg(vcfg_neon)]
inst!(neon_three_find, [props=C01+C09 xprops=C05+C14 tier=thorough cfg=neon t=1800 role=neon-find uw=verif_emul:17;find_raw.0:2;find_raw.1:4;byte_by_byte:17], 3,
    neon::find::<32>(3, false, 0, 17));
#[cfg(vcfg_neon)]
inst!(neon_three_find_40, [props=C01+C09 xprops=C05+C14 tier=thorough cfg=neon t=5400 role=neon-find uw=verif_emul:17;find_raw.0:2;find_raw.1:4;byte_by_byte:17], 3,
    neon::find::<55>(3, false, 0, 40));
#[cfg(vcfg_neon)]
inst!(neon_three_rfind, [props=C02+C09 xprops=C05+C14 tier=thorough cfg=neon t=1800 role=neon-rfind uw=verif_emul:17;rfind_raw.0:2;rfind_raw.1:4;byte_by_byte:17], 3,
    neon::find::<32>(3, true, 0, 17));
#[cfg(vcfg_neon)]
inst!(neon_three_rfind_40, [props=C02+C09 xprops=C05+C14 tier=thorough cfg=neon t=5400 role=neon-rfind uw=verif_emul:17;rfind_raw.0:2;rfind_raw.1:4;byte_by_byte:17], 3,
    neon::find::<55>(3, true, 0, 40));
#[cfg(vcfg_neon)]
inst!(neon_one_count, [props=C07+C09 xprops=C05+C14 tier=quick cfg=neon t=1800 role=neon-count uw=verif_emul:17;count_raw.0:2;count_raw.1:4;byte_by_byte:17;oracle::count:20], 3,
    neon::count::<27>(0, 12));
#[cfg(vcfg_neon)]
inst!(neon_packed_find_n3, [props=C12+C09 xprops=C05+C14 tier=quick cfg=neon t=1800 role=neon-packedpair-find uw=verif_emul:17;find_in_chunk:18;is_equal_raw:3;packedpair::Finder:4], 5,
    neon::packed::<3, 34>(false));
#[cfg(vcfg_neon)]
inst!(neon_packed_pre_n3, [props=C11+C09 xprops=C05+C14 tier=quick cfg=neon t=1800 role=neon-packedpair-prefilter uw=verif_emul:17;packedpair::Finder:4], 5,
    neon::packed::<3, 34>(true));
#[cfg(vcfg_neon)]
inst!(neon_finder_n2, [props=C03+C09 xprops=C05+C14 tier=quick cfg=neon t=1800 role=neon-finder uw=verif_emul:17;find_in_chunk:18;is_equal_raw:3;packedpair::Finder:3;rabinkarp::Finder::find_raw:22;Hash:5;rabinkarp::Finder::new:5;with_ranker:5;oracle:4], 4,
    neon::finder::<2, 20>(0, 17));
#[cfg(vcfg_simd128)]
inst!(simd128_one_find, [props=C01+C09 xprops=C05+C14 tier=quick cfg=simd128 t=1800 role=simd128-find uw=verif_emul:17;find_raw.0:2;find_raw.1:4;byte_by_byte:17], 3,
    simd128::find::<32>(1, false, 0, 17));
#[cfg(vcfg_simd128)]
inst!(simd128_one_find_40, [props=C01+C09 xprops=C05+C14 tier=thorough cfg=simd128 t=5400 role=simd128-find uw=verif_emul:17;find_raw.0:2;find_raw.1:4;byte_by_byte:17], 3,
    simd128::find::<55>(1, false, 0, 40));
#[cfg(vcfg_simd128)]
inst!(simd128_one_rfind, [props=C02+C09 xprops=C05+C14 tier=quick cfg=simd128 t=1800 role=simd128-rfind uw=verif_emul:17;rfind_raw.0:2;rfind_raw.1:4;byte_by_byte:17], 3,
    simd128::find::<32>(1, true, 0, 17));
#[cfg(vcfg_simd128)]
inst!(simd128_one_rfind_40, [props=C02+C09 xprops=C05+C14 tier=thorough cfg=simd128 t=5400 role=simd128-rfind uw=verif_emul:17;rfind_raw.0:2;rfind_raw.1:4;byte_by_byte:17], 3,
    simd128::find::<55>(1, true, 0, 40));
#[cfg(vcfg_simd128)]
inst!(simd128_two_find, [props=C01+C09 xprops=C05+C14 tier=thorough cfg=simd128 t=1800 role=simd128-find uw=verif_emul:17;find_raw.0:2;find_raw.1:4;byte_by_byte:17], 3,
    simd128::find::<32>(2, false, 0, 17));
#[cfg(vcfg_simd128)]
inst!(simd128_two_rfind, [props=C02+C09 xprops=C05+C14 tier=thorough cfg=simd128 t=1800 role=simd128-rfind uw=verif_emul:17;rfind_raw.0:2;rfind_raw.1:4;byte_by_byte:17], 3,
    simd128::find::<32>(2, true, 0, 17));
#[cfg(vcfg_simd128)]
inst!(simd128_three_find, [props=C01+C09 xprops=C05+C14 tier=thorough cfg=simd128 t=1800 role=simd128-find uw=verif_emul:17;find_raw.0:2;find_raw.1:4;byte_by_byte:17], 3,
    simd128::find::<32>(3, false, 0, 17));
#[cfg(vcfg_simd128)]
inst!(simd128_three_find_40, [props=C01+C09 xprops=C05+C14 tier=thorough cfg=simd128 t=5400 role=simd128-find uw=verif_emul:17;find_raw.0:2;find_raw.1:4;byte_by_byte:17], 3,
    simd128::find::<55>(3, false, 0, 40));
#[cfg(vcfg_simd128)]
inst!(simd128_three_rfind, [props=C02+C09 xprops=C05+C14 tier=thorough cfg=simd128 t=1800 role=simd128-rfind uw=verif_emul:17;rfind_raw.0:2;rfind_raw.1:4;byte_by_byte:17], 3,
    simd128::find::<32>(3, true, 0, 17));
#[cfg(vcfg_simd128)]
inst!(simd128_three_rfind_40, [props=C02+C09 xprops=C05+C14 tier=thorough cfg=simd128 t=5400 role=simd128-rfind uw=verif_emul:17;rfind_raw.0:2;rfind_raw.1:4;byte_by_byte:17], 3,
    simd128::find::<55>(3, true, 0, 40));
#[cfg(vcfg_simd128)]
inst!(simd128_one_count, [props=C07+C09 xprops=C05+C14 tier=quick cfg=simd128 t=1800 role=simd128-count uw=verif_emul:17;count_raw.0:2;count_raw.1:4;byte_by_byte:17;oracle::count:20], 3,
    simd128::count::<27>(0, 12));
#[cfg(vcfg_simd128)]
inst!(simd128_packed_find_n3, [props=C12+C09 xprops=C05+C14 tier=quick cfg=simd128 t=1800 role=simd128-packedpair-find uw=verif_emul:17;find_in_chunk:18;is_equal_raw:3;packedpair::Finder:4], 5,
    simd128::packed::<3, 34>(false));
#[cfg(vcfg_simd128)]
inst!(simd128_packed_pre_n3, [props=C11+C09 xprops=C05+C14 tier=quick cfg=simd128 t=1800 role=simd128-packedpair-prefilter uw=verif_emul:17;packedpair::Finder:4], 5,
    simd128::packed::<3, 34>(true));
#[cfg(vcfg_simd128)]
inst!(simd128_finder_n2, [props=C03+C09 xprops=C05+C14 tier=quick cfg=simd128 t=1800 role=simd128-finder uw=verif_emul:17;find_in_chunk:18;is_equal_raw:3;packedpair::Finder:3;rabinkarp::Finder::find_raw:22;Hash:5;rabinkarp::Finder::new:5;with_ranker:5;oracle:4], 4,
    simd128::finder::<2, 20>(0, 17));
#[cfg(vcfg_neon)]
inst!(neon_top_wiring_12, [props=C01+C02+C07+C09 xprops=C05+C14 tier=quick cfg=neon t=1800 role=neon-top-level-wiring uw=verif_emul:17;find_raw.0:2;find_raw.1:3;count_raw.0:2;count_raw.1:3;byte_by_byte:17;oracle::count:20], 3,
    neon::top_wiring::<12>());
#[cfg(vcfg_simd128)]
inst!(simd128_top_wiring_12, [props=C01+C02+C07+C09 xprops=C05+C14 tier=quick cfg=simd128 t=1800 role=simd128-top-level-wiring uw=verif_emul:17;find_raw.0:2;find_raw.1:3;count_raw.0:2;count_raw.1:3;byte_by_byte:17;oracle::count:20], 3,
    simd128::top_wiring::<12>());

// ---------------------------------------------------------------------------
// The fast bit-vector intrinsic models are equivalent to the lane-wise
// reference models, for all inputs.

#[cfg(all(kani, vcfg_neon))]
pub fn emul_equiv_neon() {
    use memchr::verif_emul::aarch64 as f;
    use memchr::verif_emul_ref::aarch64_ref as r;
    let a: [u8; 16] = kani::any();
    let b: [u8; 16] = kani::any();
    let x: u8 = kani::any();
    let le = |v: [u8; 16]| u128::from_le_bytes(v);
    unsafe {
        let (fa, ra) = (f::vld1q_u8(a.as_ptr()), r::vld1q_u8(a.as_ptr()));
        let (fb, rb) = (f::vld1q_u8(b.as_ptr()), r::vld1q_u8(b.as_ptr()));
        assert!(fa.0 == le(ra.0) && fb.0 == le(rb.0), "oracle: vld1q_u8 models differ");
        assert!(f::vdupq_n_u8(x).0 == le(r::vdupq_n_u8(x).0), "oracle: vdupq_n_u8 models differ");
        assert!(f::vceqq_u8(fa, fb).0 == le(r::vceqq_u8(ra, rb).0), "oracle: vceqq_u8 models differ");
        assert!(f::vandq_u8(fa, fb).0 == le(r::vandq_u8(ra, rb).0), "oracle: vandq_u8 models differ");
        assert!(f::vorrq_u8(fa, fb).0 == le(r::vorrq_u8(ra, rb).0), "oracle: vorrq_u8 models differ");
        assert!(f::vpmaxq_u8(fa, fb).0 == le(r::vpmaxq_u8(ra, rb).0), "oracle: vpmaxq_u8 models differ");
        let (f16, r16) = (f::vreinterpretq_u16_u8(fa), r::vreinterpretq_u16_u8(ra));
        let i: usize = kani::any();
        kani::assume(i < 8);
        assert!(((f16.0 >> (16 * i)) & 0xFFFF) as u16 == r16.0[i], "oracle: vreinterpretq_u16_u8 models differ");
        let (fs, rs) = (f::vshrn_n_u16(f16, 4), r::vshrn_n_u16(r16, 4));
        assert!(fs.0 == u64::from_le_bytes(rs.0), "oracle: vshrn_n_u16 models differ");
        let (f1, r1) = (f::vreinterpret_u64_u8(fs), r::vreinterpret_u64_u8(rs));
        assert!(f::vget_lane_u64(f1, 0) == r::vget_lane_u64(r1, 0), "oracle: vget_lane_u64 models differ");
        let (f2, r2) = (f::vreinterpretq_u64_u8(fa), r::vreinterpretq_u64_u8(ra));
        assert!(f::vgetq_lane_u64(f2, 0) == r::vgetq_lane_u64(r2, 0), "oracle: vgetq_lane_u64(0) models differ");
        assert!(f::vgetq_lane_u64(f2, 1) == r::vgetq_lane_u64(r2, 1), "oracle: vgetq_lane_u64(1) models differ");
        kani::cover!(a[3] == b[3] && a[4] != b[4], "mixed equal / different lanes");
    }
}

#[cfg(all(kani, vcfg_simd128))]
pub fn emul_equiv_simd128() {
    use memchr::verif_emul::wasm32 as f;
    use memchr::verif_emul_ref::wasm32_ref as r;
    let a: [u8; 16] = kani::any();
    let b: [u8; 16] = kani::any();
    let x: u8 = kani::any();
    let le = |v: [u8; 16]| u128::from_le_bytes(v);
    unsafe {
        let (fa, ra) = (f::v128_load(a.as_ptr().cast()), r::v128_load(a.as_ptr().cast()));
        let (fb, rb) = (f::v128_load(b.as_ptr().cast()), r::v128_load(b.as_ptr().cast()));
        assert!(fa.0 == le(ra.0) && fb.0 == le(rb.0), "oracle: v128_load models differ");
        assert!(f::u8x16_splat(x).0 == le(r::u8x16_splat(x).0), "oracle: u8x16_splat models differ");
        assert!(f::u8x16_eq(fa, fb).0 == le(r::u8x16_eq(ra, rb).0), "oracle: u8x16_eq models differ");
        assert!(f::v128_and(fa, fb).0 == le(r::v128_and(ra, rb).0), "oracle: v128_and models differ");
        assert!(f::v128_or(fa, fb).0 == le(r::v128_or(ra, rb).0), "oracle: v128_or models differ");
        assert!(f::u8x16_bitmask(fa) == r::u8x16_bitmask(ra), "oracle: u8x16_bitmask models differ");
        kani::cover!(a[3] == b[3] && a[4] != b[4], "mixed equal / different lanes");
    }
}

#[cfg(vcfg_neon)]
inst!(emul_equiv_neon_h, [props=C01+C02+C07+C09+C11 tier=quick cfg=neon t=900 role=intrinsic-model-equivalence], 18, emul_equiv_neon());
#[cfg(vcfg_simd128)]
inst!(emul_equiv_simd128_h, [props=C01+C02+C07+C09+C11 tier=quick cfg=simd128 t=900 role=intrinsic-model-equivalence], 18, emul_equiv_simd128());
