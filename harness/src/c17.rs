//! C17: searching performs no heap allocation. The allocator entry points are
//! replaced (Kani stubbing) by a trap; the harness bodies of the other
//! properties are re-used unchanged, so for every input within their bounds no
//! path reaches the allocator. Witness harnesses (`into_owned`, Shift-Or) must
//! hit the trap, which shows the trap is live.

use crate::place::{place, Buf};
use crate::substr::{force, sym_hay};
use memchr::memmem;

/// While false (only inside `allow_alloc`), the trap forwards to the system
/// allocator so that a harness can *prepare* an owned value and then check
/// that using it allocates nothing.
static mut ALLOC_FORBIDDEN: bool = true;

/// A tiny bump arena used only while allocation is allowed (no libc model,
/// no loops); memory handed out here is never freed (harnesses `forget` the
/// owned values they build).
static mut ARENA: crate::place::Buf<96> = crate::place::Buf([0; 96]);
static mut ARENA_USED: usize = 0;

pub unsafe fn trap_alloc(layout: std::alloc::Layout) -> *mut u8 {
    if ALLOC_FORBIDDEN {
        panic!("heap allocation reached");
    }
    let a = layout.align();
    let start = (ARENA_USED + a - 1) & !(a - 1);
    assert!(start + layout.size() <= 96, "harness arena exhausted");
    ARENA_USED = start + layout.size();
    core::ptr::addr_of_mut!(ARENA.0).cast::<u8>().add(start)
}

pub unsafe fn trap_realloc(_p: *mut u8, _layout: std::alloc::Layout, _n: usize) -> *mut u8 {
    panic!("heap allocation reached");
}

pub fn allow_alloc<T>(f: impl FnOnce() -> T) -> T {
    unsafe {
        ALLOC_FORBIDDEN = false;
    }
    let r = f();
    unsafe {
        ALLOC_FORBIDDEN = true;
    }
    r
}

#[cfg(kani)]
pub fn all_memmem<const NLEN: usize, const HCAP: usize>(mode: u8, part: u8) {
    force(mode);
    let nb: [u8; NLEN] = kani::any();
    let nz1 = [0u8; 1];
    let n = crate::substr::nz(&nb, &nz1);
    let (hb, hlen) = sym_hay::<HCAP>(0, HCAP);
    let h = &hb.0[..hlen];
    // construction from a borrowed needle, one-shot searches
    if part == 2 {
        let fr = memmem::FinderRev::new(n);
        let rr = fr.rfind(h);
        crate::oracle::check_rightmost(h, n, rr);
        assert!(memmem::rfind(h, n) == rr, "oracle: memmem::rfind differs from FinderRev::rfind");
        kani::cover!(rr.is_some(), "occurrence");
        return;
    }
    let f = memmem::Finder::new(n);
    let r = f.find(h);
    crate::oracle::check_leftmost(h, n, r);
    assert!(memmem::find(h, n) == r, "oracle: memmem::find differs from Finder::find");
    if part == 0 {
        kani::cover!(r.is_some(), "occurrence");
        return;
    }
    // iterators (borrowed), as_ref, clone of a borrowed finder
    if part == 1 {
        let mut it = f.find_iter(h);
        let a = it.next();
        assert!(a == r, "oracle: first find_iter item differs from find");
        let g = f.as_ref();
        let _ = g.needle();
        let mut it2 = memmem::find_iter(h, n);
        assert!(it2.next() == r, "oracle: memmem::find_iter differs");
    } else {
        let fr = memmem::FinderRev::new(n);
        let mut rit = fr.rfind_iter(h);
        let b = rit.next();
        crate::oracle::check_rightmost(h, n, b);
        let mut it3 = memmem::rfind_iter(h, n);
        assert!(it3.next() == b, "oracle: memmem::rfind_iter differs");
        let b2 = memmem::FinderBuilder::new().build_forward(n);
        let _ = b2.needle();
    }
    kani::cover!(r.is_some(), "occurrence");
}

#[cfg(kani)]
pub fn all_memchr<const LEN: usize>(group: u8) {
    let hb: [u8; LEN] = kani::any();
    let h = &hb[..];
    let (n1, n2, n3): (u8, u8, u8) = (kani::any(), kani::any(), kani::any());
    let sse2: bool = kani::any();
    let avx2: bool = kani::any();
    kani::assume(!avx2 || sse2);
    memchr::verif::force_sse2(Some(sse2));
    memchr::verif::force_avx2(Some(avx2));
    if group == 0 {
        let _ = memchr::memchr(n1, h);
        let _ = memchr::memrchr(n1, h);
    } else if group == 1 {
        let mut it = memchr::memchr_iter(n1, h);
        let _ = it.next();
        let _ = it.next_back();
        let _ = it.count();
    } else if group == 2 {
        let _ = memchr::memchr2(n1, n2, h);
        let mut it = memchr::memchr2_iter(n1, n2, h);
        let _ = it.next_back();
    } else {
        let _ = memchr::memchr3(n1, n2, n3, h);
        let mut it = memchr::memrchr3_iter(n1, n2, n3, h);
        let _ = it.next();
    }
    kani::cover!(avx2, "AVX2");
    kani::cover!(!sse2, "fallback");
}

#[cfg(kani)]
pub fn long_needle_noalloc<const HLEN: usize>(family: u8) {
    force(1);
    let nb = crate::memmem_h::long_needle(family);
    let n = &nb[..];
    let hb: [u8; HLEN] = kani::any();
    let h = &hb[..];
    let f = memmem::Finder::new(n);
    let (r, _) = f.verif_find_with_state(0, 0, h);
    crate::oracle::check_leftmost(h, n, r);
    kani::cover!(f.verif_strategy() == 3, "Two-Way with prefilter");
}

/// Searching and iterating with an OWNED finder allocates nothing either
/// (only the owning conversion itself does).
#[cfg(kani)]
pub fn owned_finder_use<const NLEN: usize, const HCAP: usize>(rev: bool) {
    force(1);
    let nb: [u8; NLEN] = kani::any();
    let (hb, hlen) = sym_hay::<HCAP>(0, HCAP);
    let h = &hb.0[..hlen];
    let (f, fr) = allow_alloc(|| {
        (memmem::Finder::new(&nb[..]).into_owned(), memmem::FinderRev::new(&nb[..]).into_owned())
    });
    if rev {
        let mut rit = fr.rfind_iter(h);
        let b = rit.next();
        crate::oracle::check_rightmost(h, &nb[..], b);
        kani::cover!(b.is_some(), "occurrence");
    } else {
        let mut it = f.find_iter(h);
        let a = it.next();
        crate::oracle::check_leftmost(h, &nb[..], a);
        let g = f.as_ref();
        let _ = g.needle();
        kani::cover!(a.is_some(), "occurrence");
    }
    core::mem::forget(f);
    core::mem::forget(fr);
}

/// One-shot functions on haystacks of 16..=63 bytes (the Rabin-Karp window of
/// `memmem::find`), concrete lengths.
#[cfg(kani)]
pub fn oneshot_mid<const NLEN: usize, const HLEN: usize>() {
    force(1);
    let nb: [u8; NLEN] = kani::any();
    let hb: [u8; HLEN] = kani::any();
    let r = memmem::find(&hb[..], &nb[..]);
    crate::oracle::check_leftmost(&hb[..], &nb[..], r);
    let rr = memmem::rfind(&hb[..], &nb[..]);
    crate::oracle::check_rightmost(&hb[..], &nb[..], rr);
    kani::cover!(r.is_some(), "occurrence");
}

#[cfg(kani)]
pub fn witness_into_owned() {
    force(1);
    let nb: [u8; 3] = kani::any();
    let f = memmem::Finder::new(&nb[..]);
    let o = f.into_owned();
    core::mem::forget(o);
}

#[cfg(kani)]
pub fn witness_iter_into_owned() {
    force(1);
    let nb: [u8; 2] = kani::any();
    let hb: [u8; 4] = kani::any();
    let it = memmem::find_iter(&hb[..], &nb[..]);
    let o = it.into_owned();
    core::mem::forget(o);
}

#[cfg(kani)]
pub fn witness_shiftor() {
    let nb: [u8; 3] = kani::any();
    let f = memchr::arch::all::shiftor::Finder::new(&nb[..]);
    core::mem::forget(f);
}

inst_noalloc!(na_memmem_n0, [props=C17 tier=quick cfg=x86std t=1500 role=noalloc-memmem uw=@RK;@TWNEW;@TWOFF;with_ranker:6;oracle:6;@PP;@MEMCHR;find_prefilter.0:2;clone:6;from:6], 3, all_memmem::<0, 8>(1, 0));
inst_noalloc!(na_memmem_n1, [props=C17 tier=thorough cfg=x86std t=1500 role=noalloc-memmem uw=@RK;@TWNEW;@TWOFF;with_ranker:6;oracle:6;@PP;@MEMCHR;find_prefilter.0:2;clone:6;from:6], 3, all_memmem::<1, 6>(1, 0));
inst_noalloc!(na_memmem_n2_fwd, [props=C17 tier=quick cfg=x86std t=1500 role=noalloc-memmem uw=@RK;@TWNEW;@TWOFF;with_ranker:6;oracle:6;@PP;@MEMCHR;find_prefilter.0:2;clone:6;from:6], 3, all_memmem::<2, 6>(1, 0));
inst_noalloc!(na_memmem_n2_nosimd, [props=C17 tier=manual cfg=x86std t=1500 role=noalloc-memmem uw=@RK;@TWNEW;@TWOFF;with_ranker:6;oracle:6;@PP;@MEMCHR;find_prefilter.0:2;clone:6;from:6], 3, all_memmem::<2, 6>(0, 0));
inst_noalloc!(na_memchr_g0_12, [props=C17 tier=quick cfg=x86std+x86log t=1800 role=noalloc-memchr uw=byte_by_byte:34;all::memchr::One::count_raw.0:67;all::memchr:10;find_raw.0:3;find_raw.1:4;count_raw.0:3;count_raw.1:4], 3, all_memchr::<12>(0));
inst_noalloc!(na_memchr_g1_12, [props=C17 tier=thorough cfg=x86std t=1800 role=noalloc-memchr uw=byte_by_byte:34;all::memchr::One::count_raw.0:67;all::memchr:10;find_raw.0:3;find_raw.1:4;count_raw.0:3;count_raw.1:4], 3, all_memchr::<12>(1));
inst_noalloc!(na_memchr_g2_12, [props=C17 tier=quick cfg=x86std t=1800 role=noalloc-memchr uw=byte_by_byte:34;all::memchr::One::count_raw.0:67;all::memchr:10;find_raw.0:3;find_raw.1:4;count_raw.0:3;count_raw.1:4], 3, all_memchr::<12>(2));
inst_noalloc!(na_memchr_g3_12, [props=C17 tier=quick cfg=x86std t=1800 role=noalloc-memchr uw=byte_by_byte:34;all::memchr::One::count_raw.0:67;all::memchr:10;find_raw.0:3;find_raw.1:4;count_raw.0:3;count_raw.1:4], 3, all_memchr::<12>(3));
inst_noalloc!(na_memchr_g0_34, [props=C17 tier=quick cfg=x86std t=1800 role=noalloc-memchr uw=byte_by_byte:34;all::memchr::One::count_raw.0:67;all::memchr:10;find_raw.0:3;find_raw.1:4;count_raw.0:3;count_raw.1:4], 3, all_memchr::<34>(0));
inst_noalloc!(na_memchr_g1_34, [props=C17 tier=manual cfg=x86std t=3600 role=noalloc-memchr uw=byte_by_byte:34;all::memchr::One::count_raw.0:67;all::memchr:10;find_raw.0:3;find_raw.1:4;count_raw.0:3;count_raw.1:4], 3, all_memchr::<34>(1));
inst_noalloc!(na_long_f0_40, [props=C17 tier=quick cfg=x86std t=1800 role=noalloc-long-needle uw=@LONGNEW;_imp.:35;oracle:35], 4, long_needle_noalloc::<40>(0));
inst_noalloc!(na_memmem_iters_n0, [props=C17 tier=quick cfg=x86std t=1500 role=noalloc-memmem-iterators uw=@RK;@TWNEW;@TWOFF;with_ranker:6;oracle:6;@PP;@MEMCHR;find_prefilter.0:2;clone:6;from:6], 3, all_memmem::<0, 5>(1, 1));
inst_noalloc!(na_memmem_iters_n2, [props=C17 tier=thorough cfg=x86std t=1500 role=noalloc-memmem-iterators uw=@RK;@TWNEW;@TWOFF;with_ranker:6;oracle:6;@PP;@MEMCHR;find_prefilter.0:2;clone:6;from:6], 3, all_memmem::<2, 4>(1, 1));
inst_noalloc!(na_memmem_n2_rev, [props=C17 tier=quick cfg=x86std t=1500 role=noalloc-memmem uw=@RK;@TWNEW;@TWOFF;with_ranker:6;oracle:6;@PP;@MEMCHR;find_prefilter.0:2;clone:6;from:6], 3, all_memmem::<2, 6>(1, 2));
inst_noalloc!(na_memmem_n0_rev, [props=C17 tier=quick cfg=x86std t=1500 role=noalloc-memmem uw=@RK;@TWNEW;@TWOFF;with_ranker:6;oracle:6;@PP;@MEMCHR;find_prefilter.0:2;clone:6;from:6], 3, all_memmem::<0, 6>(1, 2));
inst_noalloc!(na_owned_use_n2, [props=C17 tier=quick cfg=x86std t=1500 role=noalloc-owned-finder uw=@RK;@TWNEW;@TWOFF;with_ranker:6;oracle:6;@PP;@MEMCHR;find_prefilter.0:2;clone:6;from:6], 3, owned_finder_use::<2, 5>(false));
inst_noalloc!(na_owned_use_rev_n2, [props=C17 tier=quick cfg=x86std t=1500 role=noalloc-owned-finder uw=@RK;@TWNEW;@TWOFF;with_ranker:6;oracle:6;@PP;@MEMCHR;find_prefilter.0:2;clone:6;from:6], 3, owned_finder_use::<2, 5>(true));
inst_noalloc!(na_memmem_riters_n2, [props=C17 tier=thorough cfg=x86std t=1500 role=noalloc-memmem-iterators uw=@RK;@TWNEW;@TWOFF;with_ranker:6;oracle:6;@PP;@MEMCHR;find_prefilter.0:2;clone:6;from:6], 3, all_memmem::<2, 4>(1, 3));
inst_noalloc!(na_oneshot_n2_h17, [props=C17 tier=quick cfg=x86std t=1500 role=noalloc-oneshot-mid uw=is_equal_raw:3;Hash:4;rabinkarp::Finder::new:4;rabinkarp::FinderRev::new:4;find_raw:18;rfind_raw:18;oracle:4], 3, oneshot_mid::<2, 17>());
inst_noalloc!(na_oneshot_n3_h40, [props=C17 tier=thorough cfg=x86std t=3600 role=noalloc-oneshot-mid uw=is_equal_raw:3;Hash:5;rabinkarp::Finder::new:5;rabinkarp::FinderRev::new:5;find_raw:40;rfind_raw:40;oracle:5], 3, oneshot_mid::<3, 40>());
inst_noalloc!(na_witness_into_owned, [props=C17 tier=quick cfg=x86std t=600 role=alloc-trap-witness expect=fail:heap_allocation_reached uw=@RK;@TWNEW;@TWOFF;with_ranker:6;oracle:6;@PP;clone:6;from:6], 3, witness_into_owned());
inst_noalloc!(na_witness_iter_into_owned, [props=C17 tier=quick cfg=x86std t=600 role=alloc-trap-witness expect=fail:heap_allocation_reached uw=@RK;@TWNEW;@TWOFF;with_ranker:6;oracle:6;@PP;clone:6;from:6], 3, witness_iter_into_owned());
inst_noalloc!(na_witness_shiftor, [props=C17 tier=quick cfg=x86std t=600 role=alloc-trap-witness expect=fail:heap_allocation_reached], 8, witness_shiftor());
