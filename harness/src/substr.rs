//! Substring search: C03, C04, C10, C11, C12 (and C05/C14 through the
//! memory-safety and panic checks of the same runs).

use crate::oracle::*;
use crate::place::{place, Buf};

/// CPU-detection outcome forced through the hook.
/// 0 = neither SSE2 nor AVX2, 1 = SSE2 only, 2 = AVX2 (and SSE2).
#[cfg(kani)]
pub fn force(mode: u8) {
    #[cfg(memchr_verif)]
    {
        match mode {
            0 => {
                memchr::verif::force_sse2(Some(false));
                memchr::verif::force_avx2(Some(false));
            }
            1 => {
                memchr::verif::force_sse2(Some(true));
                memchr::verif::force_avx2(Some(false));
            }
            _ => {
                memchr::verif::force_sse2(Some(true));
                memchr::verif::force_avx2(Some(true));
            }
        }
    }
}

/// The needle slice for an exact-size needle array. For `N == 0` a
/// zero-length slice of a live one-byte object is returned instead of a
/// pointer to a zero-sized object (which CBMC models as an invalid pointer and
/// which defeats its pointer simplifications: measured out-of-memory).
#[inline(always)]
pub fn nz<'a, const N: usize>(nb: &'a [u8; N], z: &'a [u8; 1]) -> &'a [u8] {
    if N == 0 {
        &z[..0]
    } else {
        &nb[..]
    }
}

/// A haystack of symbolic length `min..=max` starting at offset 0 of a
/// 64-aligned buffer.
#[cfg(kani)]
#[inline(always)]
pub fn sym_hay<const CAP: usize>(min: usize, max: usize) -> (Buf<CAP>, usize) {
    let b = Buf::<CAP>::any();
    let len: usize = kani::any();
    kani::assume(len >= min && len <= max && len <= CAP);
    (b, len)
}

// ---------------------------------------------------------------------------
// C12: building blocks

#[cfg(kani)]
pub mod blocks {
    use super::*;
    use memchr::arch::all::{rabinkarp, twoway};

    /// Two-Way, both lengths symbolic: needle 1..=NMAX, haystack 0..=HMAX.
    pub fn twoway<const NMAX: usize, const HMAX: usize>(rev: bool, nmin: usize) {
        let nb: [u8; NMAX] = kani::any();
        let nlen: usize = kani::any();
        kani::assume(nlen >= nmin && nlen <= NMAX);
        let n = place(&nb[..nlen]);
        let (hb, hlen) = sym_hay::<HMAX>(0, HMAX);
        let h = place(&hb.0[..hlen]);
        if rev {
            let r = twoway::FinderRev::new(n).rfind(h, n);
            check_rightmost(h, n, r);
            kani::cover!(r.is_none() && hlen == HMAX && nlen == NMAX, "no occurrence at max sizes");
            kani::cover!(matches!(r, Some(i) if i > 0 && i + nlen < hlen) && nlen == NMAX, "occurrence strictly inside");
        } else {
            let r = twoway::Finder::new(n).find(h, n);
            check_leftmost(h, n, r);
            kani::cover!(r.is_none() && hlen == HMAX && nlen == NMAX, "no occurrence at max sizes");
            kani::cover!(matches!(r, Some(i) if i > 0 && i + nlen < hlen) && nlen == NMAX, "occurrence strictly inside");
        }
        // periodic needle (small-period branch) and non-periodic needle
        if NMAX >= 3 {
            kani::cover!(nlen == NMAX && n[0] == n[1] && n[1] == n[2], "periodic needle");
            kani::cover!(nlen == NMAX && n[0] != n[1] && n[1] != n[2] && n[0] != n[2], "non-periodic needle");
        }
    }

    /// Two-Way with a needle of exactly NLEN bytes, haystack 0..=HMAX.
    pub fn twoway_n<const NLEN: usize, const HMAX: usize>(rev: bool) {
        let nb: [u8; NLEN] = kani::any();
        let nz1 = [0u8; 1];
        let n = place(crate::substr::nz(&nb, &nz1));
        let (hb, hlen) = sym_hay::<HMAX>(0, HMAX);
        let h = place(&hb.0[..hlen]);
        if rev {
            let r = twoway::FinderRev::new(n).rfind(h, n);
            check_rightmost(h, n, r);
            kani::cover!(r.is_none() && hlen == HMAX, "no occurrence at max length");
            kani::cover!(matches!(r, Some(i) if i > 0 && i + NLEN < hlen), "occurrence strictly inside");
        } else {
            let r = twoway::Finder::new(n).find(h, n);
            check_leftmost(h, n, r);
            kani::cover!(r.is_none() && hlen == HMAX, "no occurrence at max length");
            kani::cover!(matches!(r, Some(i) if i > 0 && i + NLEN < hlen), "occurrence strictly inside");
        }
        if NLEN >= 4 {
            kani::cover!(n[0] == n[2] && n[1] == n[NLEN - 1] && n[0] != n[1], "period-2 needle");
        } else {
            kani::cover!(n[0] == n[NLEN - 1] && n[0] != n[1], "needle with a border");
        }
    }

    /// Two-Way over a small alphabet with concrete lengths (deeper bound).
    pub fn twoway_alpha<const NLEN: usize, const HLEN: usize>(rev: bool) {
        let mut nb: [u8; NLEN] = kani::any();
        let mut hb: [u8; HLEN] = kani::any();
        // bytes colliding modulo 64 are included on purpose (1 and 65)
        let mut i = 0;
        while i < NLEN {
            kani::assume(nb[i] == 1 || nb[i] == 2 || nb[i] == 65);
            i += 1;
        }
        i = 0;
        while i < HLEN {
            kani::assume(hb[i] == 1 || hb[i] == 2 || hb[i] == 65);
            i += 1;
        }
        let n = place(&nb);
        let h = place(&hb);
        if rev {
            let r = twoway::FinderRev::new(n).rfind(h, n);
            check_rightmost(h, n, r);
            kani::cover!(r.is_some(), "occurrence");
            kani::cover!(r.is_none(), "no occurrence");
        } else {
            let r = twoway::Finder::new(n).find(h, n);
            check_leftmost(h, n, r);
            kani::cover!(r.is_some(), "occurrence");
            kani::cover!(r.is_none(), "no occurrence");
        }
    }

    pub fn rabinkarp<const NMAX: usize, const HMAX: usize>(rev: bool, nmin: usize) {
        let nb: [u8; NMAX] = kani::any();
        let nlen: usize = kani::any();
        kani::assume(nlen >= nmin && nlen <= NMAX);
        let n = place(&nb[..nlen]);
        let (hb, hlen) = sym_hay::<HMAX>(0, HMAX);
        let h = place(&hb.0[..hlen]);
        if rev {
            let r = rabinkarp::FinderRev::new(n).rfind(h, n);
            check_rightmost(h, n, r);
            kani::cover!(r.is_none() && hlen == HMAX && nlen == NMAX, "no occurrence at max sizes");
            kani::cover!(matches!(r, Some(i) if i > 0 && i + nlen < hlen), "occurrence strictly inside");
        } else {
            let r = rabinkarp::Finder::new(n).find(h, n);
            check_leftmost(h, n, r);
            kani::cover!(r.is_none() && hlen == HMAX && nlen == NMAX, "no occurrence at max sizes");
            kani::cover!(matches!(r, Some(i) if i > 0 && i + nlen < hlen), "occurrence strictly inside");
        }
        kani::cover!(nlen == 0, "empty needle");
    }

    /// Rabin-Karp with a long needle (hash_2pow wraps to 0 at 33 bytes):
    /// concrete lengths, symbolic contents.
    pub fn rabinkarp_long<const NLEN: usize, const HLEN: usize>(rev: bool) {
        let nb: [u8; NLEN] = kani::any();
        let hb: [u8; HLEN] = kani::any();
        let n = place(&nb);
        let h = place(&hb);
        if rev {
            let r = rabinkarp::FinderRev::new(n).rfind(h, n);
            check_rightmost(h, n, r);
            kani::cover!(r == Some(1), "occurrence at 1");
        } else {
            let r = rabinkarp::Finder::new(n).find(h, n);
            check_leftmost(h, n, r);
            kani::cover!(r == Some(1), "occurrence at 1");
        }
        kani::cover!(true, "reached");
    }

    #[cfg(not(vcfg_x86none))]
    pub fn shiftor<const NMAX: usize, const HMAX: usize>() {
        use memchr::arch::all::shiftor;
        let nb: [u8; NMAX] = kani::any();
        let nlen: usize = kani::any();
        kani::assume(nlen <= NMAX);
        let n = &nb[..nlen];
        let (hb, hlen) = sym_hay::<HMAX>(0, HMAX);
        let h = &hb.0[..hlen];
        match shiftor::Finder::new(n) {
            None => {
                // unsupported inputs are reported by None; the documented
                // domain (needles up to 15 bytes) must be supported
                assert!(nlen > 15, "oracle: Shift-Or rejected a needle of <= 15 bytes");
            }
            Some(f) => {
                // a finder that is returned must answer correctly, whatever
                // the needle length (accepting longer needles is allowed)
                let r = f.find(h);
                check_leftmost(h, n, r);
                kani::cover!(matches!(r, Some(i) if i > 0) && nlen == 3, "occurrence");
                kani::cover!(r.is_none() && hlen == HMAX, "no occurrence");
                core::mem::forget(f);
            }
        }
        kani::cover!(nlen == 0, "empty needle");
    }
}

inst!(b_twoway_fwd_3_8, [props=C12+C03 xprops=C05+C14 tier=thorough cfg=x86std t=3600 role=twoway-fwd uw=@TW:3:8;oracle:5], 4, blocks::twoway::<3, 8>(false, 1));
inst!(b_twoway_rev_3_8, [props=C12+C04 xprops=C05+C14 tier=thorough cfg=x86std t=3600 role=twoway-rev uw=@TW:3:8;oracle:5], 4, blocks::twoway::<3, 8>(true, 1));
inst!(b_twoway_fwd_n4_8, [props=C12+C03 xprops=C05+C14 tier=thorough cfg=x86std t=1800 role=twoway-fwd uw=@TW:4:8;oracle:6], 4, blocks::twoway_n::<4, 8>(false));
inst!(b_twoway_rev_n4_8, [props=C12+C04 xprops=C05+C14 tier=thorough cfg=x86std t=1800 role=twoway-rev uw=@TW:4:8;oracle:6], 4, blocks::twoway_n::<4, 8>(true));
inst!(b_twoway_fwd_4_8, [props=C12 xprops=C05+C14 tier=thorough cfg=x86std t=3600 role=twoway-fwd uw=@TW:4:8;oracle:6], 4, blocks::twoway::<4, 8>(false, 4));
inst!(b_twoway_rev_4_8, [props=C12 xprops=C05+C14 tier=thorough cfg=x86std t=5400 role=twoway-rev uw=@TW:4:8;oracle:6], 4, blocks::twoway::<4, 8>(true, 4));
inst!(b_twoway_fwd_5_10, [props=C12 xprops=C05+C14 tier=thorough cfg=x86std t=7200 role=twoway-fwd uw=@TW:5:10;oracle:7], 4, blocks::twoway::<5, 10>(false, 5));
inst!(b_twoway_fwd_alpha_6_12, [props=C12 xprops=C14 tier=thorough cfg=x86std t=7200 role=twoway-fwd-small-alphabet], 14, blocks::twoway_alpha::<6, 12>(false));
inst!(b_twoway_rev_alpha_6_12, [props=C12 xprops=C14 tier=manual cfg=x86std t=7200 role=twoway-rev-small-alphabet], 14, blocks::twoway_alpha::<6, 12>(true));
inst!(b_rk_fwd_3_8, [props=C12+C05 xprops=C14 tier=quick cfg=x86std+generic t=1500 role=rabinkarp-fwd uw=is_equal_raw:3;Hash:6;rabinkarp::Finder::new:6;rabinkarp::FinderRev::new:6;find_raw:12;rfind_raw:12;oracle:6], 4, blocks::rabinkarp::<3, 8>(false, 0));
inst!(b_rk_rev_3_8, [props=C12+C05 xprops=C14 tier=quick cfg=x86std+generic t=1500 role=rabinkarp-rev uw=is_equal_raw:3;Hash:6;rabinkarp::Finder::new:6;rabinkarp::FinderRev::new:6;find_raw:12;rfind_raw:12;oracle:6], 4, blocks::rabinkarp::<3, 8>(true, 0));
inst!(b_rk_fwd_33, [props=C12+C14 xprops=C05 tier=quick cfg=x86std t=1500 role=rabinkarp-long], 35, blocks::rabinkarp_long::<33, 35>(false));
inst!(b_rk_rev_34, [props=C12 xprops=C05+C14 tier=thorough cfg=x86std t=1500 role=rabinkarp-long], 36, blocks::rabinkarp_long::<34, 36>(true));
#[cfg(not(vcfg_x86none))]
inst!(b_shiftor_16_8, [props=C12+C14 tier=quick cfg=x86std t=1500 role=shiftor], 18, blocks::shiftor::<16, 8>());
#[cfg(not(vcfg_x86none))]
inst!(b_shiftor_17_17, [props=C12 xprops=C14 tier=thorough cfg=x86std t=5400 role=shiftor], 19, blocks::shiftor::<17, 17>());

// ---------------------------------------------------------------------------
// packed pair: generic algorithm at N lanes, `find` (C12) and the
// `find_prefilter` contract (C11)

/// C11 contract, loop-free: for a symbolic witness offset j, if the needle
/// occurs at j then the prefilter must have returned a candidate <= j; a
/// candidate must carry the two pair bytes at their offsets.
#[inline(always)]
pub fn check_prefilter_contract(
    h: &[u8],
    n: &[u8],
    i1: usize,
    i2: usize,
    r: Option<usize>,
    pair_bytes_present: bool,
) {
    #[cfg(kani)]
    let j: usize = kani::any();
    #[cfg(not(kani))]
    let j: usize = 0;
    if n.len() <= h.len() && j <= h.len() - n.len() && is_match(h, n, j) {
        assert!(
            matches!(r, Some(c) if c <= j),
            "oracle: prefilter skipped a real occurrence"
        );
    }
    if let Some(c) = r {
        assert!(c <= h.len(), "oracle: candidate beyond the haystack");
        if pair_bytes_present {
            assert!(
                c + i1 < h.len() && c + i2 < h.len() && h[c + i1] == n[i1] && h[c + i2] == n[i2],
                "oracle: candidate does not carry the pair bytes"
            );
        }
    }
}

#[cfg(kani)]
pub mod packed {
    use super::*;
    use memchr::arch::all::packedpair::Pair;

    /// Generic packed-pair at N lanes: needle of NLEN bytes, symbolic pair,
    /// haystack min_haystack_len ..= min_haystack_len + extra.
    pub fn generic<const N: usize, const NLEN: usize, const HCAP: usize>(prefilter: bool) {
        let nb: [u8; NLEN] = kani::any();
        let nz1 = [0u8; 1];
        let n = crate::substr::nz(&nb, &nz1);
        let (i1, i2): (u8, u8) = (kani::any(), kani::any());
        let pair = match Pair::with_indices(n, i1, i2) {
            None => return,
            Some(p) => p,
        };
        let f = memchr::verif::SmallPacked::<N>::new(n, pair);
        let minlen = f.min_haystack_len();
        // hlen ranges up to HCAP: at hlen == HCAP the slice ends exactly at the
        // end of its object, so any over-read (also by the scalar needle
        // comparison) leaves the object.
        let (hb, hlen) = sym_hay::<HCAP>(0, HCAP);
        kani::assume(hlen >= minlen);
        let h = &hb.0[..hlen];
        unsafe { memchr::verif::set_region(h.as_ptr(), hlen) };
        if prefilter {
            let r = f.find_prefilter(h);
            unsafe { memchr::verif::clear_region() };
            check_prefilter_contract(h, n, i1 as usize, i2 as usize, r, true);
            kani::cover!(r.is_none() && hlen == HCAP, "no candidate at max length");
            kani::cover!(matches!(r, Some(c) if c + NLEN == hlen) && i1 > i2, "candidate at the very end, index1 > index2");
            kani::cover!(matches!(r, Some(c) if c >= N) && hlen == HCAP, "candidate beyond the first chunk");
        } else {
            let r = f.find(h, n);
            unsafe { memchr::verif::clear_region() };
            check_leftmost(h, n, r);
            kani::cover!(r.is_none() && hlen == HCAP, "no occurrence at max length");
            kani::cover!(matches!(r, Some(c) if c + NLEN == hlen) && i1 > i2, "occurrence at the very end, index1 > index2");
            kani::cover!(matches!(r, Some(c) if c >= N) && hlen == HCAP, "occurrence beyond the first chunk");
        }
    }

    /// Real-width SSE2 / AVX2 finders. isa: 0 = sse2, 1 = avx2.
    #[cfg(any(vcfg_x86std, vcfg_x86none, vcfg_x86alloc, vcfg_x86avx2, vcfg_x86rel))]
    pub fn x86<const NLEN: usize, const HLEN: usize>(isa: u8, prefilter: bool) {
        use memchr::arch::x86_64::{avx2, sse2};
        let nb: [u8; NLEN] = kani::any();
        let nz1 = [0u8; 1];
        let n = place(crate::substr::nz(&nb, &nz1));
        let (i1, i2): (u8, u8) = (kani::any(), kani::any());
        let pair = match Pair::with_indices(n, i1, i2) {
            None => return,
            Some(p) => p,
        };
        let hb: [u8; HLEN] = kani::any();
        let h = place(&hb[..]);
        let r = if isa == 0 {
            let f = sse2::packedpair::Finder::with_pair(n, pair).unwrap();
            if HLEN < f.min_haystack_len() {
                return;
            }
            if prefilter { f.find_prefilter(h) } else { f.find(h, n) }
        } else {
            force(2);
            let f = avx2::packedpair::Finder::with_pair(n, pair).unwrap();
            if HLEN < f.min_haystack_len() {
                return;
            }
            if prefilter { f.find_prefilter(h) } else { f.find(h, n) }
        };
        if prefilter {
            check_prefilter_contract(h, n, i1 as usize, i2 as usize, r, true);
        } else {
            check_leftmost(h, n, r);
        }
        kani::cover!(r.is_none(), "none");
        kani::cover!(matches!(r, Some(c) if c + NLEN == HLEN) && i1 > i2, "at the very end, index1 > index2");
    }

    /// Portable (memchr-based) prefilter.
    pub fn portable<const NLEN: usize, const HCAP: usize>(hmax: usize) {
        let nb: [u8; NLEN] = kani::any();
        let nz1 = [0u8; 1];
        let n = place(crate::substr::nz(&nb, &nz1));
        let (i1, i2): (u8, u8) = (kani::any(), kani::any());
        let pair = match Pair::with_indices(n, i1, i2) {
            None => return,
            Some(p) => p,
        };
        force(0);
        let f = memchr::arch::all::packedpair::Finder::with_pair(n, pair).unwrap();
        let (hb, hlen) = sym_hay::<HCAP>(0, hmax);
        let h = place(&hb.0[..hlen]);
        let r = f.find_prefilter(h);
        check_prefilter_contract(h, n, i1 as usize, i2 as usize, r, true);
        kani::cover!(r.is_none() && hlen == hmax, "no candidate at max length");
        kani::cover!(matches!(r, Some(c) if c > 0) && i1 > i2, "later candidate, index1 > index2");
    }
}

inst!(pp_g4_find_n2, [props=C12 xprops=C05+C14 tier=quick cfg=x86std t=1500 role=packedpair-generic-find], 8, packed::generic::<4, 2, 14>(false));
inst!(pp_g4_find_n3, [props=C12+C05+C14 tier=quick cfg=x86std t=1500 role=packedpair-generic-find], 8, packed::generic::<4, 3, 15>(false));
inst!(pp_g4_find_n5, [props=C12 xprops=C05+C14 tier=quick cfg=x86std t=1500 role=packedpair-generic-find], 8, packed::generic::<4, 5, 17>(false));
inst!(pp_g4_pre_n2, [props=C11 xprops=C05+C14 tier=quick cfg=x86std t=1500 role=packedpair-generic-prefilter], 8, packed::generic::<4, 2, 14>(true));
inst!(pp_g4_pre_n3, [props=C11+C05 xprops=C14 tier=quick cfg=x86std t=1500 role=packedpair-generic-prefilter], 8, packed::generic::<4, 3, 15>(true));
inst!(pp_g4_pre_n5, [props=C11 xprops=C05+C14 tier=quick cfg=x86std t=1500 role=packedpair-generic-prefilter], 8, packed::generic::<4, 5, 17>(true));
inst!(pp_g8_find_n4, [props=C12 xprops=C05+C14 tier=thorough cfg=x86std t=3600 role=packedpair-generic-find], 12, packed::generic::<8, 4, 28>(false));
inst!(pp_g8_pre_n4, [props=C11 xprops=C05+C14 tier=thorough cfg=x86std t=3600 role=packedpair-generic-prefilter], 12, packed::generic::<8, 4, 28>(true));
inst!(pp_g2_find_n3, [props=C12 xprops=C05+C14 tier=thorough cfg=x86std t=3600 role=packedpair-generic-find], 8, packed::generic::<2, 3, 11>(false));
inst!(pp_g2_pre_n3, [props=C11 xprops=C05+C14 tier=thorough cfg=x86std t=3600 role=packedpair-generic-prefilter], 8, packed::generic::<2, 3, 11>(true));
inst!(pp_portable_n3, [props=C11+C09 xprops=C05+C14 tier=quick cfg=generic t=1500 role=packedpair-portable-prefilter uw=find_prefilter.0:10;find_raw.0:3;byte_by_byte:10;oracle:6], 4, packed::portable::<3, 9>(9));
inst!(pp_portable_n2, [props=C11 xprops=C05+C14 tier=thorough cfg=generic t=1500 role=packedpair-portable-prefilter uw=find_prefilter.0:10;find_raw.0:3;byte_by_byte:10;oracle:6], 4, packed::portable::<2, 9>(9));
inst!(pp_portable_n4, [props=C11 xprops=C05+C14 tier=thorough cfg=generic t=1500 role=packedpair-portable-prefilter uw=find_prefilter.0:10;find_raw.0:3;byte_by_byte:10;oracle:6], 4, packed::portable::<4, 9>(9));

// ---------------------------------------------------------------------------
// C03 / C04: top-level substring search and the meta searcher

#[cfg(kani)]
pub mod meta {
    use super::*;
    use memchr::memmem;

    /// One-shot `memmem::find` / `rfind` (haystack < 64 -> Rabin-Karp).
    pub fn oneshot<const NMAX: usize, const HMAX: usize>(rev: bool) {
        let nb: [u8; NMAX] = kani::any();
        let nlen: usize = kani::any();
        kani::assume(nlen <= NMAX);
        let n = place(&nb[..nlen]);
        let (hb, hlen) = sym_hay::<HMAX>(0, HMAX);
        let h = place(&hb.0[..hlen]);
        if rev {
            let r = memmem::rfind(h, n);
            check_rightmost(h, n, r);
            if nlen == 0 {
                assert!(r == Some(hlen), "oracle: empty needle must match at haystack.len()");
            }
        } else {
            let r = memmem::find(h, n);
            check_leftmost(h, n, r);
            if nlen == 0 {
                assert!(r == Some(0), "oracle: empty needle must match at 0");
            }
        }
        kani::cover!(nlen == 0 && hlen == 0, "empty needle in empty haystack");
        kani::cover!(nlen == NMAX && hlen == HMAX, "max sizes");
    }

    /// `Finder::new(n).find(h)` with a needle of NLEN bytes under a forced
    /// detection outcome.
    pub fn finder<const NLEN: usize, const HCAP: usize>(mode: u8, hmin: usize, hmax: usize) {
        force(mode);
        let nb: [u8; NLEN] = kani::any();
        let nz1 = [0u8; 1];
        let n = place(crate::substr::nz(&nb, &nz1));
        let (hb, hlen) = sym_hay::<HCAP>(hmin, hmax);
        let h = place(&hb.0[..hlen]);
        let f = memmem::Finder::new(n);
        let r = f.find(h);
        check_leftmost(h, n, r);
        if NLEN == 0 {
            assert!(r == Some(0), "oracle: empty needle must match at 0");
        }
        if NLEN > 0 {
            kani::cover!(r.is_none() && hlen == hmax, "no occurrence at max length");
            kani::cover!(matches!(r, Some(i) if i + NLEN == hlen) && hlen == hmax, "occurrence at the very end");
        } else {
            kani::cover!(hlen == hmax, "empty needle, max length");
        }
    }

    /// `FinderRev::new(n).rfind(h)`.
    pub fn finder_rev<const NLEN: usize, const HCAP: usize>(hmin: usize, hmax: usize) {
        force(1);
        let nb: [u8; NLEN] = kani::any();
        let nz1 = [0u8; 1];
        let n = place(crate::substr::nz(&nb, &nz1));
        let (hb, hlen) = sym_hay::<HCAP>(hmin, hmax);
        let h = place(&hb.0[..hlen]);
        let f = memmem::FinderRev::new(n);
        let r = f.rfind(h);
        check_rightmost(h, n, r);
        if NLEN == 0 {
            assert!(r == Some(hlen), "oracle: empty needle must match at haystack.len()");
        }
        if NLEN > 0 {
            kani::cover!(r.is_none() && hlen == hmax, "no occurrence at max length");
            kani::cover!(r == Some(0) && hlen == hmax, "occurrence at the very start");
        } else {
            kani::cover!(hlen == hmax, "empty needle, max length");
        }
    }
}

inst!(m_oneshot_fwd, [props=C03+C14 xprops=C05 tier=quick cfg=x86std t=1500 role=memmem-find-oneshot uw=is_equal_raw:3;Hash:6;rabinkarp::Finder::new:6;rabinkarp::FinderRev::new:6;find_raw:12;rfind_raw:12;oracle:6], 4, meta::oneshot::<3, 8>(false));
inst!(m_oneshot_rev, [props=C04+C05+C14 tier=quick cfg=x86std t=1500 role=memmem-rfind-oneshot uw=is_equal_raw:3;Hash:6;rabinkarp::Finder::new:6;rabinkarp::FinderRev::new:6;find_raw:12;rfind_raw:12;oracle:6], 4, meta::oneshot::<3, 8>(true));
inst!(m_finder_n0, [props=C03+C14 tier=quick cfg=x86std t=900 role=finder-empty uw=@RK;@TWNEW;@TWOFF;with_ranker:6;oracle:6], 3, meta::finder::<0, 20>(2, 0, 20));
inst!(m_finder_rev_n0, [props=C04+C14 tier=quick cfg=x86std t=900 role=finderrev-empty uw=@RK;@TWNEW;@TWOFF;with_ranker:6;oracle:6], 3, meta::finder_rev::<0, 20>(0, 20));

// --- meta searcher routes ---------------------------------------------------
// mode 1 = SSE2 only (packed-pair SSE2 route, Rabin-Karp below min_haystack_len)
inst!(m_finder_n2_sse2, [props=C03+C05+C14 tier=quick cfg=x86std+x86none t=1800 role=finder-packed-sse2 uw=@RK;@TWNEW;@TWOFF;with_ranker:6;oracle:6;@PP], 3,
    meta::finder::<2, 20>(1, 0, 20));
inst!(m_finder_n3_sse2, [props=C03 xprops=C05+C14 tier=thorough cfg=x86std t=1800 role=finder-packed-sse2 uw=@RK;@TWNEW;@TWOFF;with_ranker:6;oracle:6;@PP], 3,
    meta::finder::<3, 20>(1, 0, 20));
inst!(m_finder_n4_sse2_36, [props=C03 xprops=C05+C14 tier=manual cfg=x86std t=3600 role=finder-packed-sse2 uw=@RK;@TWNEW;@TWOFF;with_ranker:6;oracle:6;@PP], 3,
    meta::finder::<4, 36>(1, 16, 36));
// mode 2 = AVX2: the AVX2 finder falls back to its SSE2 half below 32+index bytes
inst!(m_finder_n2_avx2_36, [props=C03 xprops=C05+C14 tier=thorough cfg=x86std t=1800 role=finder-packed-avx2 uw=@RK;@TWNEW;@TWOFF;with_ranker:6;oracle:6;@PP32], 3,
    meta::finder::<2, 36>(2, 30, 36));
inst!(m_finder_n3_avx2_66, [props=C03 xprops=C05+C14 tier=manual cfg=x86std t=5400 role=finder-packed-avx2 uw=@RK;@TWNEW;@TWOFF;with_ranker:6;oracle:6;@PP32], 3,
    meta::finder::<3, 66>(2, 0, 66));
// one-byte needle -> memchr
inst!(m_finder_n1, [props=C03 xprops=C14 tier=quick cfg=x86std+generic t=1800 role=finder-one-byte uw=@RK;@TWNEW;@TWOFF;with_ranker:6;oracle:6;@MEMCHR], 3,
    meta::finder::<1, 20>(1, 0, 20));
// reverse
inst!(m_finder_rev_n1, [props=C04 xprops=C14 tier=quick cfg=x86std+generic t=1800 role=finderrev-one-byte uw=@RK;@TWNEW;@TWOFF;with_ranker:6;oracle:6;@MEMCHR], 3,
    meta::finder_rev::<1, 20>(0, 20));
inst!(m_finder_rev_n2_rk, [props=C04 xprops=C05+C14 tier=quick cfg=x86std+generic t=1800 role=finderrev-rabinkarp uw=@RK;@TWNEW;@TWOFF;with_ranker:6;oracle:6], 3,
    meta::finder_rev::<2, 15>(0, 15));
inst!(m_finder_rev_n3_rk, [props=C04 xprops=C05+C14 tier=thorough cfg=x86std t=1800 role=finderrev-rabinkarp uw=@RK;@TWNEW;@TWOFF;with_ranker:6;oracle:6], 3,
    meta::finder_rev::<3, 15>(0, 15));
inst!(m_finder_rev_n2_tw16, [props=C04 xprops=C05+C14 tier=manual cfg=x86std+generic t=1800 role=finderrev-twoway-routing uw=@RK;@TW:2:17;oracle:6], 3,
    meta::finder_rev::<2, 17>(16, 17));
inst!(m_finder_rev_n3_tw, [props=C04 xprops=C05+C14 tier=manual cfg=x86std t=5400 role=finderrev-twoway-routing uw=@RK;@TW:3:18;oracle:6], 3,
    meta::finder_rev::<3, 18>(15, 18));
// no SIMD available on x86 (mode 0): Two-Way + the portable prefilter
inst!(m_finder_n2_nosimd_rk, [props=C03 xprops=C05+C14 tier=quick cfg=generic t=1800 role=finder-nosimd-rabinkarp uw=@RK;@TWNEW;@TWOFF;with_ranker:6;oracle:6;find_prefilter.0:2;@MEMCHR], 3,
    meta::finder::<2, 9>(0, 0, 9));
inst!(m_finder_n2_nosimd_tw, [props=C03 xprops=C05+C14 tier=manual cfg=generic t=7200 role=finder-nosimd-twoway-prefilter uw=@RK;@TW:2:17;with_ranker:6;oracle:6;find_prefilter.0:19;@MEMCHR], 3,
    meta::finder::<2, 17>(0, 16, 17));

inst!(b_rk_fwd_4_10, [props=C12 xprops=C05+C14 tier=thorough cfg=x86std t=5400 role=rabinkarp-fwd uw=is_equal_raw:3;Hash:6;rabinkarp::Finder::new:6;rabinkarp::FinderRev::new:6;find_raw:12;rfind_raw:12;oracle:6], 4, blocks::rabinkarp::<4, 10>(false, 0));
inst!(b_rk_rev_4_10, [props=C12 xprops=C05+C14 tier=manual cfg=x86std t=5400 role=rabinkarp-rev uw=is_equal_raw:3;Hash:6;rabinkarp::Finder::new:6;rabinkarp::FinderRev::new:6;find_raw:12;rfind_raw:12;oracle:6], 4, blocks::rabinkarp::<4, 10>(true, 0));
inst!(m_oneshot_fwd_4_10, [props=C03 xprops=C05+C14 tier=thorough cfg=x86std t=5400 role=memmem-find-oneshot uw=is_equal_raw:3;Hash:6;rabinkarp::Finder::new:6;rabinkarp::FinderRev::new:6;find_raw:12;rfind_raw:12;oracle:6], 4, meta::oneshot::<4, 10>(false));
inst!(m_oneshot_rev_4_10, [props=C04 xprops=C05+C14 tier=manual cfg=x86std t=5400 role=memmem-rfind-oneshot uw=is_equal_raw:3;Hash:6;rabinkarp::Finder::new:6;rabinkarp::FinderRev::new:6;find_raw:12;rfind_raw:12;oracle:6], 4, meta::oneshot::<4, 10>(true));

inst!(b_twoway_fwd_n3_8, [props=C12+C03+C08 xprops=C05+C14 tier=quick cfg=x86std t=1800 role=twoway-fwd uw=@TW:3:8;oracle:5], 4, blocks::twoway_n::<3, 8>(false));
inst!(b_twoway_rev_n3_8, [props=C12+C04+C08 xprops=C05+C14 tier=quick cfg=x86std t=1800 role=twoway-rev uw=@TW:3:8;oracle:5], 4, blocks::twoway_n::<3, 8>(true));
inst!(b_twoway_fwd_n4_7, [props=C12+C03+C08 xprops=C05+C14 tier=quick cfg=x86std t=1800 role=twoway-fwd uw=@TW:4:7;oracle:6], 4, blocks::twoway_n::<4, 7>(false));
inst!(b_twoway_rev_n4_7, [props=C12+C04+C08 xprops=C05+C14 tier=quick cfg=x86std t=1800 role=twoway-rev uw=@TW:4:7;oracle:6], 4, blocks::twoway_n::<4, 7>(true));

inst!(b_twoway_rev_n5_9, [props=C12+C04 xprops=C05+C14 tier=thorough cfg=x86std t=5400 role=twoway-rev uw=@TW:5:9;oracle:7], 4, blocks::twoway_n::<5, 9>(true));
inst!(b_twoway_fwd_n5_9, [props=C12+C03 xprops=C05+C14 tier=thorough cfg=x86std t=5400 role=twoway-fwd uw=@TW:5:9;oracle:7], 4, blocks::twoway_n::<5, 9>(false));
