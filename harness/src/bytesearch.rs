//! C01 / C02 / C07 (and, through their memory and panic checks, C05 / C14):
//! the memchr family. Bodies are generic over const parameters; instances
//! are declared with `inst!` at the bottom of each section.

use crate::oracle::*;
use crate::place::{place, Buf};

#[inline(always)]
fn p1(n1: u8) -> impl Fn(u8) -> bool {
    move |b| b == n1
}
#[inline(always)]
fn p2(n1: u8, n2: u8) -> impl Fn(u8) -> bool {
    move |b| b == n1 || b == n2
}
#[inline(always)]
fn p3(n1: u8, n2: u8, n3: u8) -> impl Fn(u8) -> bool {
    move |b| b == n1 || b == n2 || b == n3
}

/// Converts a raw-pointer answer into an index, asserting the documented
/// `start <= p < end`.
#[inline(always)]
pub unsafe fn ptr_to_idx(
    r: Option<*const u8>,
    s: *const u8,
    e: *const u8,
) -> Option<usize> {
    match r {
        None => None,
        Some(p) => {
            assert!(p >= s && p < e, "oracle: returned pointer outside [start, end)");
            Some(p.offset_from(s) as usize)
        }
    }
}

/// A haystack of symbolic length `MIN..=MAX` at symbolic offset `< ALIGN`
/// inside a buffer of `CAP >= MAX + ALIGN - 1` bytes.
#[cfg(kani)]
#[inline(always)]
pub fn sym_window<const CAP: usize>(
    min: usize,
    max: usize,
    align: usize,
) -> (Buf<CAP>, usize, usize) {
    let buf = Buf::<CAP>::any();
    let off: usize = kani::any();
    let len: usize = kani::any();
    kani::assume(off < align);
    kani::assume(len >= min && len <= max);
    kani::assume(off + len <= CAP);
    (buf, off, len)
}

/// Flush-right window: the haystack always ENDS exactly at the end of its
/// object (`off = CAP - len`), so any read past the end leaves the object; the
/// start alignment then varies with the length.
#[cfg(kani)]
#[inline(always)]
pub fn flush_window<const CAP: usize>(min: usize) -> (Buf<CAP>, usize, usize) {
    let buf = Buf::<CAP>::any();
    let len: usize = kani::any();
    kani::assume(len >= min && len <= CAP);
    (buf, CAP - len, len)
}

// ---------------------------------------------------------------------------
// (G) the crate's generic vector algorithm at N lanes (hook: SmallVec<N>)

#[cfg(kani)]
pub mod generic {
    use super::*;
    use memchr::verif as v;

    /// which: 1 = One, 2 = Two, 3 = Three; rev: reverse search.
    pub fn find<const N: usize, const CAP: usize>(which: u8, rev: bool, max: usize) {
        let (buf, off, len) = sym_window::<CAP>(N, max, N);
        let h = &buf.0[off..off + len];
        let (n1, n2, n3): (u8, u8, u8) = (kani::any(), kani::any(), kani::any());
        unsafe {
            v::set_region(h.as_ptr(), len);
            let s = h.as_ptr();
            let e = s.add(len);
            let r = match (which, rev) {
                (1, false) => v::one_find_raw::<N>(n1, s, e),
                (1, true) => v::one_rfind_raw::<N>(n1, s, e),
                (2, false) => v::two_find_raw::<N>(n1, n2, s, e),
                (2, true) => v::two_rfind_raw::<N>(n1, n2, s, e),
                (3, false) => v::three_find_raw::<N>(n1, n2, n3, s, e),
                _ => v::three_rfind_raw::<N>(n1, n2, n3, s, e),
            };
            v::clear_region();
            let ri = ptr_to_idx(r, s, e);
            match which {
                1 => {
                    if rev {
                        check_last(h, ri, p1(n1))
                    } else {
                        check_first(h, ri, p1(n1))
                    }
                }
                2 => {
                    if rev {
                        check_last(h, ri, p2(n1, n2))
                    } else {
                        check_first(h, ri, p2(n1, n2))
                    }
                }
                _ => {
                    if rev {
                        check_last(h, ri, p3(n1, n2, n3))
                    } else {
                        check_first(h, ri, p3(n1, n2, n3))
                    }
                }
            }
            // Reachability witnesses: no match at the largest size; a match
            // deep inside a long haystack (past head chunk: unrolled loop /
            // vector loop), a match in the very last / first byte.
            kani::cover!(ri.is_none() && len == max, "no match at max length");
            kani::cover!(
                matches!(ri, Some(i) if i >= 2 * N && i + 2 * N < len),
                "match in the aligned body"
            );
            kani::cover!(
                matches!(ri, Some(i) if i + 1 == len) && off == N - 1,
                "match in the last byte, misaligned start"
            );
            kani::cover!(ri == Some(0) && len == max, "match in the first byte");
        }
    }

    pub fn count<const N: usize, const CAP: usize>(max: usize) {
        let (buf, off, len) = sym_window::<CAP>(N, max, N);
        let h = &buf.0[off..off + len];
        let n1: u8 = kani::any();
        unsafe {
            v::set_region(h.as_ptr(), len);
            let s = h.as_ptr();
            let e = s.add(len);
            let r = v::one_count_raw::<N>(n1, s, e);
            v::clear_region();
            let expect = crate::oracle::count(h, p1(n1));
            assert!(r == expect, "oracle: count differs from the number of matching bytes");
            kani::cover!(r == 0 && len == max, "count 0 at max length");
            kani::cover!(r == len && len == max, "every byte matches at max length");
            kani::cover!(r == 3 && off == N - 1, "count 3, misaligned start");
        }
    }
}

// 4 lanes. One: LOOP_SIZE 16, len 4..=40 covers two unrolled iterations, the
// vector loop and the overlapping tail. Two/Three: LOOP_SIZE 8, len 4..=24.
inst!(g4_one_find, [props=C01+C05+C14 tier=quick cfg=x86std t=900 role=generic-4lane-find], 7,
    generic::find::<4, 43>(1, false, 40));
inst!(g4_two_find, [props=C01 xprops=C05+C14 tier=quick cfg=x86std t=900 role=generic-4lane-find], 7,
    generic::find::<4, 27>(2, false, 24));
inst!(g4_three_find, [props=C01 xprops=C05+C14 tier=quick cfg=x86std t=900 role=generic-4lane-find], 7,
    generic::find::<4, 27>(3, false, 24));
inst!(g4_one_rfind, [props=C02 xprops=C05+C14 tier=quick cfg=x86std t=900 role=generic-4lane-rfind], 7,
    generic::find::<4, 43>(1, true, 40));
inst!(g4_two_rfind, [props=C02 xprops=C05+C14 tier=quick cfg=x86std t=900 role=generic-4lane-rfind], 7,
    generic::find::<4, 27>(2, true, 24));
inst!(g4_three_rfind, [props=C02+C05 xprops=C14 tier=quick cfg=x86std t=900 role=generic-4lane-rfind], 7,
    generic::find::<4, 27>(3, true, 24));
inst!(g4_one_count, [props=C07+C05+C14 tier=quick cfg=x86std t=900 role=generic-4lane-count uw=count_raw.0:3;count_raw.1:5;byte_by_byte:6;oracle::count:32], 6,
    generic::count::<4, 33>(30));
inst!(g4_one_count_40, [props=C07 xprops=C05+C14 tier=thorough cfg=x86std t=3600 role=generic-4lane-count uw=count_raw.0:4;count_raw.1:5;byte_by_byte:6;oracle::count:42], 6,
    generic::count::<4, 43>(40));

// 2 lanes and 8 lanes (thorough).
inst!(g2_one_find, [props=C01 xprops=C05+C14 tier=thorough cfg=x86std t=1800 role=generic-2lane-find], 7,
    generic::find::<2, 21>(1, false, 20));
inst!(g2_one_rfind, [props=C02 xprops=C05+C14 tier=thorough cfg=x86std t=1800 role=generic-2lane-rfind], 7,
    generic::find::<2, 21>(1, true, 20));
inst!(g2_three_find, [props=C01 xprops=C05+C14 tier=thorough cfg=x86std t=1800 role=generic-2lane-find], 8,
    generic::find::<2, 13>(3, false, 12));
inst!(g2_three_rfind, [props=C02 xprops=C05+C14 tier=thorough cfg=x86std t=1800 role=generic-2lane-rfind], 8,
    generic::find::<2, 13>(3, true, 12));
inst!(g2_one_count, [props=C07 xprops=C05+C14 tier=thorough cfg=x86std t=1800 role=generic-2lane-count], 21,
    generic::count::<2, 21>(20));
inst!(g8_one_find, [props=C01 xprops=C05+C14 tier=thorough cfg=x86std t=3600 role=generic-8lane-find], 10,
    generic::find::<8, 87>(1, false, 80));
inst!(g8_two_find, [props=C01 xprops=C05+C14 tier=thorough cfg=x86std t=3600 role=generic-8lane-find], 10,
    generic::find::<8, 55>(2, false, 48));
inst!(g8_three_find, [props=C01 xprops=C05+C14 tier=thorough cfg=x86std t=3600 role=generic-8lane-find], 10,
    generic::find::<8, 55>(3, false, 48));
inst!(g8_one_rfind, [props=C02 xprops=C05+C14 tier=thorough cfg=x86std t=3600 role=generic-8lane-rfind], 10,
    generic::find::<8, 87>(1, true, 80));
inst!(g8_two_rfind, [props=C02 xprops=C05+C14 tier=thorough cfg=x86std t=3600 role=generic-8lane-rfind], 10,
    generic::find::<8, 55>(2, true, 48));
inst!(g8_three_rfind, [props=C02 xprops=C05+C14 tier=thorough cfg=x86std t=3600 role=generic-8lane-rfind], 10,
    generic::find::<8, 55>(3, true, 48));
inst!(g8_one_count, [props=C07 xprops=C05+C14 tier=manual cfg=x86std t=3600 role=generic-8lane-count], 81,
    generic::count::<8, 87>(80));

// ---------------------------------------------------------------------------
// SWAR fallback (arch::all::memchr), slice and raw forms.

#[cfg(kani)]
pub mod swar {
    use super::*;
    use memchr::arch::all::memchr::{One, Three, Two};

    pub fn find<const CAP: usize>(which: u8, rev: bool, max: usize) {
        let (buf, off, len) =
            if max == 0 { flush_window::<CAP>(0) } else { sym_window::<CAP>(0, max, 8) };
        let max = if max == 0 { CAP } else { max };
        let h = place(&buf.0[off..off + len]);
        let (n1, n2, n3): (u8, u8, u8) = (kani::any(), kani::any(), kani::any());
        let ri = match (which, rev) {
            (1, false) => One::new(n1).find(h),
            (1, true) => One::new(n1).rfind(h),
            (2, false) => Two::new(n1, n2).find(h),
            (2, true) => Two::new(n1, n2).rfind(h),
            (3, false) => Three::new(n1, n2, n3).find(h),
            _ => Three::new(n1, n2, n3).rfind(h),
        };
        match (which, rev) {
            (1, false) => check_first(h, ri, p1(n1)),
            (1, true) => check_last(h, ri, p1(n1)),
            (2, false) => check_first(h, ri, p2(n1, n2)),
            (2, true) => check_last(h, ri, p2(n1, n2)),
            (3, false) => check_first(h, ri, p3(n1, n2, n3)),
            _ => check_last(h, ri, p3(n1, n2, n3)),
        }
        kani::cover!(ri.is_none() && len == max, "no match at max length");
        kani::cover!(
            matches!(ri, Some(i) if i >= 9 && i + 8 < len) && off == 3,
            "match in the aligned word loop, misaligned start"
        );
        kani::cover!(matches!(ri, Some(i) if i + 1 == len) && len == max, "match in last byte");
    }

    /// Raw form incl. `start >= end`: two symbolic offsets into one buffer in
    /// either order.
    pub fn raw<const CAP: usize>(which: u8, rev: bool) {
        let buf = Buf::<CAP>::any();
        let a: usize = kani::any();
        let b: usize = kani::any();
        kani::assume(a <= CAP && b <= CAP);
        let (n1, n2, n3): (u8, u8, u8) = (kani::any(), kani::any(), kani::any());
        unsafe {
            let s = buf.0.as_ptr().add(a);
            let e = buf.0.as_ptr().add(b);
            let r = match (which, rev) {
                (1, false) => One::new(n1).find_raw(s, e),
                (1, true) => One::new(n1).rfind_raw(s, e),
                (2, false) => Two::new(n1, n2).find_raw(s, e),
                (2, true) => Two::new(n1, n2).rfind_raw(s, e),
                (3, false) => Three::new(n1, n2, n3).find_raw(s, e),
                _ => Three::new(n1, n2, n3).rfind_raw(s, e),
            };
            if a >= b {
                assert!(r.is_none(), "oracle: start >= end must give None");
            } else {
                let h = &buf.0[a..b];
                let ri = ptr_to_idx(r, s, e);
                match (which, rev) {
                    (1, false) => check_first(h, ri, p1(n1)),
                    (1, true) => check_last(h, ri, p1(n1)),
                    (2, false) => check_first(h, ri, p2(n1, n2)),
                    (2, true) => check_last(h, ri, p2(n1, n2)),
                    (3, false) => check_first(h, ri, p3(n1, n2, n3)),
                    _ => check_last(h, ri, p3(n1, n2, n3)),
                }
            }
            kani::cover!(a > b, "start > end");
            kani::cover!(a == b, "start == end");
            kani::cover!(a < b && r.is_some(), "match through raw form");
        }
    }

    pub fn count<const CAP: usize>(max: usize) {
        let (buf, off, len) = sym_window::<CAP>(0, max, 8);
        let h = place(&buf.0[off..off + len]);
        let n1: u8 = kani::any();
        let r = One::new(n1).count(h);
        assert!(r == crate::oracle::count(h, p1(n1)), "oracle: count differs from the number of matching bytes");
        kani::cover!(r == len && len == max, "every byte matches");
    }
}

inst!(swar_one_find, [props=C01+C05+C14 tier=quick cfg=x86std+generic t=900 role=swar-find uw=One::find_raw.0:4;byte_by_byte:18], 18,
    swar::find::<39>(1, false, 32));
inst!(swar_two_find, [props=C01 xprops=C05+C14 tier=quick cfg=x86std+generic t=900 role=swar-find uw=Two::find_raw.0:4;byte_by_byte:10], 10,
    swar::find::<31>(2, false, 24));
inst!(swar_three_find, [props=C01 xprops=C05+C14 tier=quick cfg=x86std+generic t=900 role=swar-find uw=Three::find_raw.0:4;byte_by_byte:10], 10,
    swar::find::<31>(3, false, 24));
inst!(swar_one_rfind, [props=C02+C05 xprops=C14 tier=quick cfg=x86std+generic t=900 role=swar-rfind uw=One::rfind_raw.0:4;byte_by_byte:18], 18,
    swar::find::<39>(1, true, 32));
inst!(swar_two_rfind, [props=C02 xprops=C05+C14 tier=quick cfg=x86std+generic t=900 role=swar-rfind uw=Two::rfind_raw.0:4;byte_by_byte:10], 10,
    swar::find::<31>(2, true, 24));
inst!(swar_three_rfind, [props=C02 xprops=C05+C14 tier=quick cfg=x86std+generic t=900 role=swar-rfind uw=Three::rfind_raw.0:4;byte_by_byte:10], 10,
    swar::find::<31>(3, true, 24));
inst!(swar_one_raw, [props=C01+C05+C14 tier=quick cfg=x86std t=900 role=swar-raw uw=One::find_raw.0:3;byte_by_byte:18], 18,
    swar::raw::<20>(1, false));
inst!(swar_one_rraw, [props=C02 xprops=C05+C14 tier=quick cfg=x86std t=900 role=swar-raw uw=One::rfind_raw.0:3;byte_by_byte:18], 18,
    swar::raw::<20>(1, true));
inst!(swar_three_raw, [props=C01 xprops=C05+C14 tier=thorough cfg=x86std t=900 role=swar-raw], 10,
    swar::raw::<20>(3, false));
inst!(swar_two_rraw, [props=C02 xprops=C05+C14 tier=thorough cfg=x86std t=900 role=swar-raw], 10,
    swar::raw::<20>(2, true));
inst!(swar_one_count, [props=C07 xprops=C05+C14 tier=quick cfg=x86std+generic t=900 role=swar-count], 26,
    swar::count::<31>(24));

// ---------------------------------------------------------------------------
// (W) the public per-ISA searchers at real vector width (x86 only).

#[cfg(all(kani, any(vcfg_x86std, vcfg_x86none, vcfg_x86alloc, vcfg_x86avx2, vcfg_x86rel)))]
pub mod x86 {
    use super::*;
    use memchr::arch::x86_64::{avx2, sse2};

    /// isa: 0 = sse2, 1 = avx2 (availability forced through the hook).
    pub fn find<const CAP: usize>(isa: u8, which: u8, rev: bool, min: usize, max: usize, align: usize) {
        let (buf, off, len) =
            if align == 0 { flush_window::<CAP>(min) } else { sym_window::<CAP>(min, max, align) };
        let align = if align == 0 { 1 } else { align };
        let h = place(&buf.0[off..off + len]);
        let (n1, n2, n3): (u8, u8, u8) = (kani::any(), kani::any(), kani::any());
        if isa == 1 {
            memchr::verif::force_avx2(Some(true));
        }
        let ri = match (isa, which, rev) {
            (0, 1, false) => sse2::memchr::One::new(n1).unwrap().find(h),
            (0, 1, true) => sse2::memchr::One::new(n1).unwrap().rfind(h),
            (0, 2, false) => sse2::memchr::Two::new(n1, n2).unwrap().find(h),
            (0, 2, true) => sse2::memchr::Two::new(n1, n2).unwrap().rfind(h),
            (0, 3, false) => sse2::memchr::Three::new(n1, n2, n3).unwrap().find(h),
            (0, _, _) => sse2::memchr::Three::new(n1, n2, n3).unwrap().rfind(h),
            (_, 1, false) => avx2::memchr::One::new(n1).unwrap().find(h),
            (_, 1, true) => avx2::memchr::One::new(n1).unwrap().rfind(h),
            (_, 2, false) => avx2::memchr::Two::new(n1, n2).unwrap().find(h),
            (_, 2, true) => avx2::memchr::Two::new(n1, n2).unwrap().rfind(h),
            (_, 3, false) => avx2::memchr::Three::new(n1, n2, n3).unwrap().find(h),
            _ => avx2::memchr::Three::new(n1, n2, n3).unwrap().rfind(h),
        };
        match (which, rev) {
            (1, false) => check_first(h, ri, p1(n1)),
            (1, true) => check_last(h, ri, p1(n1)),
            (2, false) => check_first(h, ri, p2(n1, n2)),
            (2, true) => check_last(h, ri, p2(n1, n2)),
            (3, false) => check_first(h, ri, p3(n1, n2, n3)),
            _ => check_last(h, ri, p3(n1, n2, n3)),
        }
        kani::cover!(ri.is_none() && len == max, "no match at max length");
        kani::cover!(matches!(ri, Some(i) if i + 1 == len) && len == max && off + 1 == align, "match in last byte, max misalignment");
        kani::cover!(ri == Some(0) && len == max, "match in first byte");
    }

    /// Raw forms incl. start >= end.
    pub fn raw<const CAP: usize>(isa: u8, which: u8, rev: bool) {
        let buf = Buf::<CAP>::any();
        let a: usize = kani::any();
        let b: usize = kani::any();
        kani::assume(a <= CAP && b <= CAP);
        let (n1, n2, n3): (u8, u8, u8) = (kani::any(), kani::any(), kani::any());
        if isa == 1 {
            memchr::verif::force_avx2(Some(true));
        }
        unsafe {
            let s = buf.0.as_ptr().add(a);
            let e = buf.0.as_ptr().add(b);
            let r = match (isa, which, rev) {
                (0, 1, false) => sse2::memchr::One::new(n1).unwrap().find_raw(s, e),
                (0, 1, true) => sse2::memchr::One::new(n1).unwrap().rfind_raw(s, e),
                (0, 2, false) => sse2::memchr::Two::new(n1, n2).unwrap().find_raw(s, e),
                (0, 2, true) => sse2::memchr::Two::new(n1, n2).unwrap().rfind_raw(s, e),
                (0, 3, false) => sse2::memchr::Three::new(n1, n2, n3).unwrap().find_raw(s, e),
                (0, _, _) => sse2::memchr::Three::new(n1, n2, n3).unwrap().rfind_raw(s, e),
                (_, 1, false) => avx2::memchr::One::new(n1).unwrap().find_raw(s, e),
                (_, 1, true) => avx2::memchr::One::new(n1).unwrap().rfind_raw(s, e),
                (_, 2, false) => avx2::memchr::Two::new(n1, n2).unwrap().find_raw(s, e),
                (_, 2, true) => avx2::memchr::Two::new(n1, n2).unwrap().rfind_raw(s, e),
                (_, 3, false) => avx2::memchr::Three::new(n1, n2, n3).unwrap().find_raw(s, e),
                _ => avx2::memchr::Three::new(n1, n2, n3).unwrap().rfind_raw(s, e),
            };
            if a >= b {
                assert!(r.is_none(), "oracle: start >= end must give None");
            } else {
                let h = &buf.0[a..b];
                let ri = ptr_to_idx(r, s, e);
                match (which, rev) {
                    (1, false) => check_first(h, ri, p1(n1)),
                    (1, true) => check_last(h, ri, p1(n1)),
                    (2, false) => check_first(h, ri, p2(n1, n2)),
                    (2, true) => check_last(h, ri, p2(n1, n2)),
                    (3, false) => check_first(h, ri, p3(n1, n2, n3)),
                    _ => check_last(h, ri, p3(n1, n2, n3)),
                }
            }
            kani::cover!(a > b, "start > end");
            kani::cover!(a < b && r.is_some(), "match through raw form");
        }
    }

    /// Concrete length (routing between the scalar / SSE2 / AVX2 paths is then
    /// decided during symbolic execution), symbolic alignment `off < align`,
    /// buffer of exactly `CAP = LEN + align - 1` bytes.
    pub fn find_fixed<const LEN: usize, const CAP: usize>(isa: u8, which: u8, rev: bool, align: usize) {
        let buf = Buf::<CAP>::any();
        let off: usize = kani::any();
        kani::assume(off < align && off + LEN <= CAP);
        let h = place(&buf.0[off..off + LEN]);
        let (n1, n2, n3): (u8, u8, u8) = (kani::any(), kani::any(), kani::any());
        if isa == 1 {
            memchr::verif::force_avx2(Some(true));
        }
        let ri = match (isa, which, rev) {
            (0, 1, false) => sse2::memchr::One::new(n1).unwrap().find(h),
            (0, 1, true) => sse2::memchr::One::new(n1).unwrap().rfind(h),
            (0, 2, false) => sse2::memchr::Two::new(n1, n2).unwrap().find(h),
            (0, 2, true) => sse2::memchr::Two::new(n1, n2).unwrap().rfind(h),
            (0, 3, false) => sse2::memchr::Three::new(n1, n2, n3).unwrap().find(h),
            (0, _, _) => sse2::memchr::Three::new(n1, n2, n3).unwrap().rfind(h),
            (_, 1, false) => avx2::memchr::One::new(n1).unwrap().find(h),
            (_, 1, true) => avx2::memchr::One::new(n1).unwrap().rfind(h),
            (_, 2, false) => avx2::memchr::Two::new(n1, n2).unwrap().find(h),
            (_, 2, true) => avx2::memchr::Two::new(n1, n2).unwrap().rfind(h),
            (_, 3, false) => avx2::memchr::Three::new(n1, n2, n3).unwrap().find(h),
            _ => avx2::memchr::Three::new(n1, n2, n3).unwrap().rfind(h),
        };
        match (which, rev) {
            (1, false) => check_first(h, ri, p1(n1)),
            (1, true) => check_last(h, ri, p1(n1)),
            (2, false) => check_first(h, ri, p2(n1, n2)),
            (2, true) => check_last(h, ri, p2(n1, n2)),
            (3, false) => check_first(h, ri, p3(n1, n2, n3)),
            _ => check_last(h, ri, p3(n1, n2, n3)),
        }
        kani::cover!(ri.is_none(), "no match");
        if LEN > 0 {
            kani::cover!(ri == Some(LEN - 1) && off + 1 == align, "match in last byte, max misalignment");
        }
    }

    pub fn count_fixed<const LEN: usize, const CAP: usize>(isa: u8, align: usize) {
        let buf = Buf::<CAP>::any();
        let off: usize = kani::any();
        kani::assume(off < align && off + LEN <= CAP);
        let h = place(&buf.0[off..off + LEN]);
        let n1: u8 = kani::any();
        if isa == 1 {
            memchr::verif::force_avx2(Some(true));
        }
        let r = if isa == 0 {
            sse2::memchr::One::new(n1).unwrap().count(h)
        } else {
            avx2::memchr::One::new(n1).unwrap().count(h)
        };
        assert!(r == crate::oracle::count(h, p1(n1)), "oracle: count differs from the number of matching bytes");
        kani::cover!(r == LEN && off + 1 == align, "every byte matches, max misalignment");
    }

    pub fn count<const CAP: usize>(isa: u8, min: usize, max: usize, align: usize) {
        let (buf, off, len) = sym_window::<CAP>(min, max, align);
        let h = place(&buf.0[off..off + len]);
        let n1: u8 = kani::any();
        if isa == 1 {
            memchr::verif::force_avx2(Some(true));
        }
        let r = if isa == 0 {
            sse2::memchr::One::new(n1).unwrap().count(h)
        } else {
            avx2::memchr::One::new(n1).unwrap().count(h)
        };
        assert!(r == crate::oracle::count(h, p1(n1)), "oracle: count differs from the number of matching bytes");
        kani::cover!(r == len && len == max, "every byte matches at max length");
        kani::cover!(r == 2 && off + 1 == align && len == max, "two matches, max misalignment");
    }
}

#[cfg(any(vcfg_x86std, vcfg_x86none, vcfg_x86alloc, vcfg_x86avx2, vcfg_x86rel))]
inst!(sse2_one_find, [props=C01+C05 xprops=C14 tier=quick cfg=x86std+x86none t=1500 role=sse2-find uw=find_raw.0:2;find_raw.1:4;byte_by_byte:17], 3,
    x86::find::<55>(0, 1, false, 0, 40, 16));
#[cfg(any(vcfg_x86std, vcfg_x86none, vcfg_x86alloc, vcfg_x86avx2, vcfg_x86rel))]
inst!(avx2_one_find_28_36, [props=C01 xprops=C05+C14 tier=quick cfg=x86std t=1800 role=avx2-find uw=find_raw.0:2;find_raw.1:3;byte_by_byte:17], 3,
    x86::find::<67>(1, 1, false, 28, 36, 32));
#[cfg(any(vcfg_x86std, vcfg_x86none, vcfg_x86alloc, vcfg_x86avx2, vcfg_x86rel))]
inst!(avx2_one_find_70, [props=C01 xprops=C05+C14 tier=thorough cfg=x86std t=5400 role=avx2-find uw=find_raw.0:2;find_raw.1:4;byte_by_byte:17], 3,
    x86::find::<101>(1, 1, false, 0, 70, 32));
#[cfg(any(vcfg_x86std, vcfg_x86none, vcfg_x86alloc, vcfg_x86avx2, vcfg_x86rel))]
inst!(sse2_one_find_len64, [props=C01 xprops=C05+C14 tier=thorough cfg=x86std t=5400 role=sse2-find-long uw=find_raw.0:4;find_raw.1:5;byte_by_byte:17], 3,
    x86::find_fixed::<64, 79>(0, 1, false, 16));
#[cfg(any(vcfg_x86std, vcfg_x86none, vcfg_x86alloc, vcfg_x86avx2, vcfg_x86rel))]
inst!(sse2_one_find_len80, [props=C01 xprops=C05+C14 tier=thorough cfg=x86std t=5400 role=sse2-find-long uw=find_raw.0:4;find_raw.1:5;byte_by_byte:17], 3,
    x86::find_fixed::<80, 95>(0, 1, false, 16));
#[cfg(any(vcfg_x86std, vcfg_x86none, vcfg_x86alloc, vcfg_x86avx2, vcfg_x86rel))]
inst!(sse2_one_find_len143, [props=C01 xprops=C05+C14 tier=thorough cfg=x86std t=5400 role=sse2-find-long uw=find_raw.0:4;find_raw.1:5;byte_by_byte:17], 3,
    x86::find_fixed::<143, 158>(0, 1, false, 16));
#[cfg(any(vcfg_x86std, vcfg_x86none, vcfg_x86alloc, vcfg_x86avx2, vcfg_x86rel))]
inst!(sse2_one_find_len144, [props=C01 xprops=C05+C14 tier=thorough cfg=x86std t=5400 role=sse2-find-long uw=find_raw.0:4;find_raw.1:5;byte_by_byte:17], 3,
    x86::find_fixed::<144, 159>(0, 1, false, 16));
#[cfg(any(vcfg_x86std, vcfg_x86none, vcfg_x86alloc, vcfg_x86avx2, vcfg_x86rel))]
inst!(avx2_one_find_len128, [props=C01 xprops=C05+C14 tier=thorough cfg=x86std t=7200 role=avx2-find-long uw=find_raw.0:4;find_raw.1:5;byte_by_byte:17], 3,
    x86::find_fixed::<128, 159>(1, 1, false, 32));
#[cfg(any(vcfg_x86std, vcfg_x86none, vcfg_x86alloc, vcfg_x86avx2, vcfg_x86rel))]
inst!(avx2_one_find_len160, [props=C01 xprops=C05+C14 tier=thorough cfg=x86std t=7200 role=avx2-find-long uw=find_raw.0:4;find_raw.1:5;byte_by_byte:17], 3,
    x86::find_fixed::<160, 191>(1, 1, false, 32));
#[cfg(any(vcfg_x86std, vcfg_x86none, vcfg_x86alloc, vcfg_x86avx2, vcfg_x86rel))]
inst!(avx2_one_find_len287, [props=C01 xprops=C05+C14 tier=thorough cfg=x86std t=7200 role=avx2-find-long uw=find_raw.0:4;find_raw.1:5;byte_by_byte:17], 3,
    x86::find_fixed::<287, 318>(1, 1, false, 32));
#[cfg(any(vcfg_x86std, vcfg_x86none, vcfg_x86alloc, vcfg_x86avx2, vcfg_x86rel))]
inst!(sse2_one_rfind, [props=C02+C05 xprops=C14 tier=quick cfg=x86std+x86none t=1500 role=sse2-rfind uw=rfind_raw.0:2;rfind_raw.1:4;byte_by_byte:17], 3,
    x86::find::<55>(0, 1, true, 0, 40, 16));
#[cfg(any(vcfg_x86std, vcfg_x86none, vcfg_x86alloc, vcfg_x86avx2, vcfg_x86rel))]
inst!(avx2_one_rfind_28_36, [props=C02 xprops=C05+C14 tier=quick cfg=x86std t=1800 role=avx2-rfind uw=rfind_raw.0:2;rfind_raw.1:3;byte_by_byte:17], 3,
    x86::find::<67>(1, 1, true, 28, 36, 32));
#[cfg(any(vcfg_x86std, vcfg_x86none, vcfg_x86alloc, vcfg_x86avx2, vcfg_x86rel))]
inst!(avx2_one_rfind_70, [props=C02 xprops=C05+C14 tier=thorough cfg=x86std t=5400 role=avx2-rfind uw=rfind_raw.0:2;rfind_raw.1:4;byte_by_byte:17], 3,
    x86::find::<101>(1, 1, true, 0, 70, 32));
#[cfg(any(vcfg_x86std, vcfg_x86none, vcfg_x86alloc, vcfg_x86avx2, vcfg_x86rel))]
inst!(sse2_one_rfind_len64, [props=C02 xprops=C05+C14 tier=thorough cfg=x86std t=5400 role=sse2-rfind-long uw=rfind_raw.0:4;rfind_raw.1:5;byte_by_byte:17], 3,
    x86::find_fixed::<64, 79>(0, 1, true, 16));
#[cfg(any(vcfg_x86std, vcfg_x86none, vcfg_x86alloc, vcfg_x86avx2, vcfg_x86rel))]
inst!(sse2_one_rfind_len80, [props=C02 xprops=C05+C14 tier=thorough cfg=x86std t=5400 role=sse2-rfind-long uw=rfind_raw.0:4;rfind_raw.1:5;byte_by_byte:17], 3,
    x86::find_fixed::<80, 95>(0, 1, true, 16));
#[cfg(any(vcfg_x86std, vcfg_x86none, vcfg_x86alloc, vcfg_x86avx2, vcfg_x86rel))]
inst!(sse2_one_rfind_len143, [props=C02 xprops=C05+C14 tier=thorough cfg=x86std t=5400 role=sse2-rfind-long uw=rfind_raw.0:4;rfind_raw.1:5;byte_by_byte:17], 3,
    x86::find_fixed::<143, 158>(0, 1, true, 16));
#[cfg(any(vcfg_x86std, vcfg_x86none, vcfg_x86alloc, vcfg_x86avx2, vcfg_x86rel))]
inst!(sse2_one_rfind_len144, [props=C02 xprops=C05+C14 tier=thorough cfg=x86std t=5400 role=sse2-rfind-long uw=rfind_raw.0:4;rfind_raw.1:5;byte_by_byte:17], 3,
    x86::find_fixed::<144, 159>(0, 1, true, 16));
#[cfg(any(vcfg_x86std, vcfg_x86none, vcfg_x86alloc, vcfg_x86avx2, vcfg_x86rel))]
inst!(avx2_one_rfind_len128, [props=C02 xprops=C05+C14 tier=thorough cfg=x86std t=7200 role=avx2-rfind-long uw=rfind_raw.0:4;rfind_raw.1:5;byte_by_byte:17], 3,
    x86::find_fixed::<128, 159>(1, 1, true, 32));
#[cfg(any(vcfg_x86std, vcfg_x86none, vcfg_x86alloc, vcfg_x86avx2, vcfg_x86rel))]
inst!(avx2_one_rfind_len160, [props=C02 xprops=C05+C14 tier=manual cfg=x86std t=7200 role=avx2-rfind-long uw=rfind_raw.0:4;rfind_raw.1:5;byte_by_byte:17], 3,
    x86::find_fixed::<160, 191>(1, 1, true, 32));
#[cfg(any(vcfg_x86std, vcfg_x86none, vcfg_x86alloc, vcfg_x86avx2, vcfg_x86rel))]
inst!(avx2_one_rfind_len287, [props=C02 xprops=C05+C14 tier=thorough cfg=x86std t=7200 role=avx2-rfind-long uw=rfind_raw.0:4;rfind_raw.1:5;byte_by_byte:17], 3,
    x86::find_fixed::<287, 318>(1, 1, true, 32));
#[cfg(any(vcfg_x86std, vcfg_x86none, vcfg_x86alloc, vcfg_x86avx2, vcfg_x86rel))]
inst!(sse2_two_find, [props=C01 xprops=C05+C14 tier=thorough cfg=x86std t=1500 role=sse2-find uw=find_raw.0:2;find_raw.1:4;byte_by_byte:17], 3,
    x86::find::<55>(0, 2, false, 0, 40, 16));
#[cfg(any(vcfg_x86std, vcfg_x86none, vcfg_x86alloc, vcfg_x86avx2, vcfg_x86rel))]
inst!(avx2_two_find_28_36, [props=C01 xprops=C05+C14 tier=thorough cfg=x86std t=1800 role=avx2-find uw=find_raw.0:2;find_raw.1:3;byte_by_byte:17], 3,
    x86::find::<67>(1, 2, false, 28, 36, 32));
#[cfg(any(vcfg_x86std, vcfg_x86none, vcfg_x86alloc, vcfg_x86avx2, vcfg_x86rel))]
inst!(avx2_two_find_70, [props=C01 xprops=C05+C14 tier=thorough cfg=x86std t=5400 role=avx2-find uw=find_raw.0:2;find_raw.1:4;byte_by_byte:17], 3,
    x86::find::<101>(1, 2, false, 0, 70, 32));
#[cfg(any(vcfg_x86std, vcfg_x86none, vcfg_x86alloc, vcfg_x86avx2, vcfg_x86rel))]
inst!(sse2_two_find_len80, [props=C01 xprops=C05+C14 tier=thorough cfg=x86std t=5400 role=sse2-find-long uw=find_raw.0:4;find_raw.1:5;byte_by_byte:17], 3,
    x86::find_fixed::<80, 95>(0, 2, false, 16));
#[cfg(any(vcfg_x86std, vcfg_x86none, vcfg_x86alloc, vcfg_x86avx2, vcfg_x86rel))]
inst!(sse2_two_find_len144, [props=C01 xprops=C05+C14 tier=thorough cfg=x86std t=5400 role=sse2-find-long uw=find_raw.0:7;find_raw.1:5;byte_by_byte:17], 3,
    x86::find_fixed::<144, 159>(0, 2, false, 16));
#[cfg(any(vcfg_x86std, vcfg_x86none, vcfg_x86alloc, vcfg_x86avx2, vcfg_x86rel))]
inst!(sse2_two_rfind, [props=C02 xprops=C05+C14 tier=thorough cfg=x86std t=1500 role=sse2-rfind uw=rfind_raw.0:2;rfind_raw.1:4;byte_by_byte:17], 3,
    x86::find::<55>(0, 2, true, 0, 40, 16));
#[cfg(any(vcfg_x86std, vcfg_x86none, vcfg_x86alloc, vcfg_x86avx2, vcfg_x86rel))]
inst!(avx2_two_rfind_28_36, [props=C02 xprops=C05+C14 tier=thorough cfg=x86std t=1800 role=avx2-rfind uw=rfind_raw.0:2;rfind_raw.1:3;byte_by_byte:17], 3,
    x86::find::<67>(1, 2, true, 28, 36, 32));
#[cfg(any(vcfg_x86std, vcfg_x86none, vcfg_x86alloc, vcfg_x86avx2, vcfg_x86rel))]
inst!(avx2_two_rfind_70, [props=C02 xprops=C05+C14 tier=thorough cfg=x86std t=5400 role=avx2-rfind uw=rfind_raw.0:2;rfind_raw.1:4;byte_by_byte:17], 3,
    x86::find::<101>(1, 2, true, 0, 70, 32));
#[cfg(any(vcfg_x86std, vcfg_x86none, vcfg_x86alloc, vcfg_x86avx2, vcfg_x86rel))]
inst!(sse2_two_rfind_len80, [props=C02 xprops=C05+C14 tier=thorough cfg=x86std t=5400 role=sse2-rfind-long uw=rfind_raw.0:4;rfind_raw.1:5;byte_by_byte:17], 3,
    x86::find_fixed::<80, 95>(0, 2, true, 16));
#[cfg(any(vcfg_x86std, vcfg_x86none, vcfg_x86alloc, vcfg_x86avx2, vcfg_x86rel))]
inst!(sse2_two_rfind_len144, [props=C02 xprops=C05+C14 tier=thorough cfg=x86std t=5400 role=sse2-rfind-long uw=rfind_raw.0:7;rfind_raw.1:5;byte_by_byte:17], 3,
    x86::find_fixed::<144, 159>(0, 2, true, 16));
#[cfg(any(vcfg_x86std, vcfg_x86none, vcfg_x86alloc, vcfg_x86avx2, vcfg_x86rel))]
inst!(sse2_three_find, [props=C01 xprops=C05+C14 tier=quick cfg=x86std t=1500 role=sse2-find uw=find_raw.0:2;find_raw.1:4;byte_by_byte:17], 3,
    x86::find::<55>(0, 3, false, 0, 40, 16));
#[cfg(any(vcfg_x86std, vcfg_x86none, vcfg_x86alloc, vcfg_x86avx2, vcfg_x86rel))]
inst!(avx2_three_find_28_36, [props=C01 xprops=C05+C14 tier=thorough cfg=x86std t=1800 role=avx2-find uw=find_raw.0:2;find_raw.1:3;byte_by_byte:17], 3,
    x86::find::<67>(1, 3, false, 28, 36, 32));
#[cfg(any(vcfg_x86std, vcfg_x86none, vcfg_x86alloc, vcfg_x86avx2, vcfg_x86rel))]
inst!(avx2_three_find_70, [props=C01 xprops=C05+C14 tier=manual cfg=x86std t=5400 role=avx2-find uw=find_raw.0:2;find_raw.1:4;byte_by_byte:17], 3,
    x86::find::<101>(1, 3, false, 0, 70, 32));
#[cfg(any(vcfg_x86std, vcfg_x86none, vcfg_x86alloc, vcfg_x86avx2, vcfg_x86rel))]
inst!(sse2_three_find_len80, [props=C01 xprops=C05+C14 tier=thorough cfg=x86std t=5400 role=sse2-find-long uw=find_raw.0:4;find_raw.1:5;byte_by_byte:17], 3,
    x86::find_fixed::<80, 95>(0, 3, false, 16));
#[cfg(any(vcfg_x86std, vcfg_x86none, vcfg_x86alloc, vcfg_x86avx2, vcfg_x86rel))]
inst!(sse2_three_find_len144, [props=C01 xprops=C05+C14 tier=thorough cfg=x86std t=5400 role=sse2-find-long uw=find_raw.0:7;find_raw.1:5;byte_by_byte:17], 3,
    x86::find_fixed::<144, 159>(0, 3, false, 16));
#[cfg(any(vcfg_x86std, vcfg_x86none, vcfg_x86alloc, vcfg_x86avx2, vcfg_x86rel))]
inst!(sse2_three_rfind, [props=C02 xprops=C05+C14 tier=quick cfg=x86std t=1500 role=sse2-rfind uw=rfind_raw.0:2;rfind_raw.1:4;byte_by_byte:17], 3,
    x86::find::<55>(0, 3, true, 0, 40, 16));
#[cfg(any(vcfg_x86std, vcfg_x86none, vcfg_x86alloc, vcfg_x86avx2, vcfg_x86rel))]
inst!(avx2_three_rfind_28_36, [props=C02 xprops=C05+C14 tier=thorough cfg=x86std t=1800 role=avx2-rfind uw=rfind_raw.0:2;rfind_raw.1:3;byte_by_byte:17], 3,
    x86::find::<67>(1, 3, true, 28, 36, 32));
#[cfg(any(vcfg_x86std, vcfg_x86none, vcfg_x86alloc, vcfg_x86avx2, vcfg_x86rel))]
inst!(avx2_three_rfind_70, [props=C02 xprops=C05+C14 tier=thorough cfg=x86std t=5400 role=avx2-rfind uw=rfind_raw.0:2;rfind_raw.1:4;byte_by_byte:17], 3,
    x86::find::<101>(1, 3, true, 0, 70, 32));
#[cfg(any(vcfg_x86std, vcfg_x86none, vcfg_x86alloc, vcfg_x86avx2, vcfg_x86rel))]
inst!(sse2_three_rfind_len80, [props=C02 xprops=C05+C14 tier=thorough cfg=x86std t=5400 role=sse2-rfind-long uw=rfind_raw.0:4;rfind_raw.1:5;byte_by_byte:17], 3,
    x86::find_fixed::<80, 95>(0, 3, true, 16));
#[cfg(any(vcfg_x86std, vcfg_x86none, vcfg_x86alloc, vcfg_x86avx2, vcfg_x86rel))]
inst!(sse2_three_rfind_len144, [props=C02 xprops=C05+C14 tier=thorough cfg=x86std t=5400 role=sse2-rfind-long uw=rfind_raw.0:7;rfind_raw.1:5;byte_by_byte:17], 3,
    x86::find_fixed::<144, 159>(0, 3, true, 16));
#[cfg(any(vcfg_x86std, vcfg_x86none, vcfg_x86alloc, vcfg_x86avx2, vcfg_x86rel))]
inst!(sse2_one_raw, [props=C01+C14 xprops=C05 tier=quick cfg=x86std t=1800 role=sse2-raw uw=find_raw.0:2;find_raw.1:4;byte_by_byte:17], 3,
    x86::raw::<40>(0, 1, false));
#[cfg(any(vcfg_x86std, vcfg_x86none, vcfg_x86alloc, vcfg_x86avx2, vcfg_x86rel))]
inst!(sse2_one_rraw, [props=C02 xprops=C05+C14 tier=quick cfg=x86std t=1800 role=sse2-raw uw=rfind_raw.0:2;rfind_raw.1:4;byte_by_byte:17], 3,
    x86::raw::<40>(0, 1, true));
#[cfg(any(vcfg_x86std, vcfg_x86none, vcfg_x86alloc, vcfg_x86avx2, vcfg_x86rel))]
inst!(sse2_three_raw, [props=C01 xprops=C05+C14 tier=thorough cfg=x86std t=1800 role=sse2-raw uw=find_raw.0:2;find_raw.1:4;byte_by_byte:17], 3,
    x86::raw::<40>(0, 3, false));
#[cfg(any(vcfg_x86std, vcfg_x86none, vcfg_x86alloc, vcfg_x86avx2, vcfg_x86rel))]
inst!(sse2_three_rraw, [props=C02 xprops=C05+C14 tier=thorough cfg=x86std t=1800 role=sse2-raw uw=rfind_raw.0:2;rfind_raw.1:4;byte_by_byte:17], 3,
    x86::raw::<40>(0, 3, true));
#[cfg(any(vcfg_x86std, vcfg_x86none, vcfg_x86alloc, vcfg_x86avx2, vcfg_x86rel))]
inst!(avx2_one_raw, [props=C01 xprops=C05+C14 tier=thorough cfg=x86std t=1800 role=avx2-raw uw=find_raw.0:2;find_raw.1:4;byte_by_byte:17], 3,
    x86::raw::<40>(1, 1, false));
#[cfg(any(vcfg_x86std, vcfg_x86none, vcfg_x86alloc, vcfg_x86avx2, vcfg_x86rel))]
inst!(avx2_one_rraw, [props=C02 xprops=C05+C14 tier=thorough cfg=x86std t=1800 role=avx2-raw uw=rfind_raw.0:2;rfind_raw.1:4;byte_by_byte:17], 3,
    x86::raw::<40>(1, 1, true));
#[cfg(any(vcfg_x86std, vcfg_x86none, vcfg_x86alloc, vcfg_x86avx2, vcfg_x86rel))]
inst!(avx2_three_raw, [props=C01 xprops=C05+C14 tier=thorough cfg=x86std t=1800 role=avx2-raw uw=find_raw.0:2;find_raw.1:4;byte_by_byte:17], 3,
    x86::raw::<18>(1, 3, false));
#[cfg(any(vcfg_x86std, vcfg_x86none, vcfg_x86alloc, vcfg_x86avx2, vcfg_x86rel))]
inst!(avx2_three_rraw, [props=C02 xprops=C05+C14 tier=thorough cfg=x86std t=1800 role=avx2-raw uw=rfind_raw.0:2;rfind_raw.1:4;byte_by_byte:17], 3,
    x86::raw::<40>(1, 3, true));
#[cfg(any(vcfg_x86std, vcfg_x86none, vcfg_x86alloc, vcfg_x86avx2, vcfg_x86rel))]
inst!(sse2_one_count, [props=C07+C05 xprops=C14 tier=quick cfg=x86std t=1800 role=sse2-count uw=count_raw.0:2;count_raw.1:4;byte_by_byte:17;oracle::count:26], 3,
    x86::count::<39>(0, 0, 24, 16));
#[cfg(any(vcfg_x86std, vcfg_x86none, vcfg_x86alloc, vcfg_x86avx2, vcfg_x86rel))]
inst!(avx2_one_count_28_36, [props=C07 xprops=C05+C14 tier=manual cfg=x86std t=1800 role=avx2-count uw=count_raw.0:2;count_raw.1:3;byte_by_byte:33;oracle::count:38], 3,
    x86::count::<67>(1, 28, 36, 32));
#[cfg(any(vcfg_x86std, vcfg_x86none, vcfg_x86alloc, vcfg_x86avx2, vcfg_x86rel))]
inst!(sse2_one_count_len80, [props=C07 xprops=C05+C14 tier=manual cfg=x86std t=5400 role=sse2-count-long uw=count_raw.0:3;count_raw.1:5;byte_by_byte:17;oracle::count:82], 3,
    x86::count_fixed::<80, 95>(0, 16));
#[cfg(any(vcfg_x86std, vcfg_x86none, vcfg_x86alloc, vcfg_x86avx2, vcfg_x86rel))]
inst!(avx2_one_count_len160, [props=C07 xprops=C05+C14 tier=manual cfg=x86std t=7200 role=avx2-count-long uw=count_raw.0:3;count_raw.1:5;byte_by_byte:33;oracle::count:162], 3,
    x86::count_fixed::<160, 191>(1, 32));

// 2 lanes at long lengths: LOOP_SIZE is 8 bytes, so 80 bytes are ten unrolled
// iterations -- this is where code gated on "many loop iterations" (e.g. a
// skim pre-loop for len >= 8 * LOOP_SIZE) becomes reachable cheaply.
inst!(g2_one_find_80, [props=C01 xprops=C05+C14 tier=quick cfg=x86std t=1500 role=generic-2lane-find-long uw=find_raw:12], 12,
    generic::find::<2, 81>(1, false, 80));
inst!(g2_one_rfind_80, [props=C02 xprops=C05+C14 tier=quick cfg=x86std t=1500 role=generic-2lane-rfind-long uw=find_raw:12], 12,
    generic::find::<2, 81>(1, true, 80));
inst!(g2_three_rfind_40, [props=C02 xprops=C05+C14 tier=thorough cfg=x86std t=1500 role=generic-2lane-rfind-long uw=find_raw.0:12;find_raw.1:4], 4,
    generic::find::<2, 41>(3, true, 40));
inst!(g2_one_count_80, [props=C07 xprops=C05+C14 tier=thorough cfg=x86std t=3600 role=generic-2lane-count-long uw=count_raw.0:12;count_raw.1:4;byte_by_byte:4;oracle::count:82], 4,
    generic::count::<2, 81>(80));
#[cfg(any(vcfg_x86std, vcfg_x86none, vcfg_x86alloc, vcfg_x86avx2, vcfg_x86rel))]
inst!(avx2_two_raw, [props=C01+C14 xprops=C05 tier=quick cfg=x86std t=1800 role=avx2-raw uw=find_raw.0:2;find_raw.1:4;byte_by_byte:17], 3,
    x86::raw::<10>(1, 2, false));
#[cfg(any(vcfg_x86std, vcfg_x86none, vcfg_x86alloc, vcfg_x86avx2, vcfg_x86rel))]
inst!(avx2_two_rraw, [props=C02 xprops=C05+C14 tier=thorough cfg=x86std t=1800 role=avx2-raw uw=find_raw.0:2;find_raw.1:4;byte_by_byte:17], 3,
    x86::raw::<40>(1, 2, true));

// flush-right placements (C05): every length 0..=CAP with the haystack ending
// exactly at the end of its object
inst!(swar_one_find_flush, [props=C05+C01 xprops=C14 tier=quick cfg=x86std t=900 role=swar-find-flush uw=One::find_raw.0:4;byte_by_byte:18], 18,
    swar::find::<32>(1, false, 0));
inst!(swar_three_rfind_flush, [props=C05+C02 xprops=C14 tier=quick cfg=x86std t=900 role=swar-rfind-flush uw=Three::rfind_raw.0:6;byte_by_byte:10], 10,
    swar::find::<32>(3, true, 0));
#[cfg(any(vcfg_x86std, vcfg_x86none, vcfg_x86alloc, vcfg_x86avx2, vcfg_x86rel))]
inst!(sse2_one_find_flush, [props=C05+C01 xprops=C14 tier=quick cfg=x86std t=1500 role=sse2-find-flush uw=find_raw.0:2;find_raw.1:4;byte_by_byte:17], 3,
    x86::find::<40>(0, 1, false, 0, 40, 0));
#[cfg(any(vcfg_x86std, vcfg_x86none, vcfg_x86alloc, vcfg_x86avx2, vcfg_x86rel))]
inst!(sse2_three_rfind_flush, [props=C02 xprops=C05+C14 tier=thorough cfg=x86std t=1500 role=sse2-rfind-flush uw=find_raw.0:2;find_raw.1:4;byte_by_byte:17], 3,
    x86::find::<40>(0, 3, true, 0, 40, 0));
