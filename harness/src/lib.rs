//! Kani harness crate for BurntSushi/memchr. Built by /verif/check into a
//! scratch directory with a path dependency on /repo (or on a cfg-rewritten
//! copy of /repo for the pseudo-targets). Which modules are compiled is
//! selected by `--cfg vcfg_*` flags passed by the driver.
//!
//! Every harness is declared through `inst!`; the driver parses the bracketed
//! metadata of each `inst!` to learn which property/tier/configuration it
//! belongs to, so this file tree is the single source of truth.
#![allow(clippy::all)]
#![cfg_attr(not(kani), allow(unused))]

#[macro_use]
pub mod macros;
pub mod oracle;
pub mod place;

pub mod warmup;

pub mod c18;
pub mod c19;
pub mod bytesearch;
pub mod substr;
pub mod iters;
pub mod lanes;
pub mod dispatch;
pub mod memmem_h;
#[cfg(not(vcfg_x86none))]
pub mod c17;
pub mod pseudo;
#[cfg(vcfg_x86std)]
pub mod exp;
