//! C09: every backend / detection outcome gives identical answers; the
//! runtime dispatcher with a symbolic CPU-detection outcome (first call through
//! `detect`, second call through the cached pointer).

use crate::oracle::*;
use crate::place::{place, Buf};

#[cfg(all(kani, any(vcfg_x86std, vcfg_x86none, vcfg_x86alloc, vcfg_x86avx2, vcfg_x86rel)))]
pub mod x86 {
    use super::*;
    use memchr::arch::all::memchr as swar;
    use memchr::arch::x86_64::{avx2, sse2};

    /// The process-constant CPU: chosen once per harness.
    pub fn symbolic_cpu() -> (bool, bool) {
        let sse2: bool = kani::any();
        let avx2: bool = kani::any();
        kani::assume(!avx2 || sse2);
        memchr::verif::force_sse2(Some(sse2));
        memchr::verif::force_avx2(Some(avx2));
        (sse2, avx2)
    }

    /// group 1: memchr/memrchr/count; 2: memchr2/memrchr2; 3: memchr3/memrchr3.
    /// Two haystacks: the first call goes through `detect` (which stores the
    /// selected routine), the second through the cached pointer.
    pub fn dispatcher<const LEN1: usize, const LEN2: usize>(group: u8) {
        let (s2, a2) = symbolic_cpu();
        let b1 = Buf::<LEN1>::any();
        let b2 = Buf::<LEN2>::any();
        let h1 = place(&b1.0[..]);
        let h2 = place(&b2.0[..]);
        let (n1, n2, n3): (u8, u8, u8) = (kani::any(), kani::any(), kani::any());
        match group {
            1 => {
                check_first(h1, memchr::memchr(n1, h1), |b| b == n1);
                check_first(h2, memchr::memchr(n1, h2), |b| b == n1);
                check_last(h1, memchr::memrchr(n1, h1), |b| b == n1);
                check_last(h2, memchr::memrchr(n1, h2), |b| b == n1);
                let c1 = memchr::memchr_iter(n1, h1).count();
                assert!(c1 == count(h1, |b| b == n1), "oracle: count differs from the number of matching bytes");
                let c2 = memchr::memchr_iter(n1, h2).count();
                assert!(c2 == count(h2, |b| b == n1), "oracle: count differs from the number of matching bytes");
            }
            2 => {
                check_first(h1, memchr::memchr2(n1, n2, h1), |b| b == n1 || b == n2);
                check_first(h2, memchr::memchr2(n1, n2, h2), |b| b == n1 || b == n2);
                check_last(h1, memchr::memrchr2(n1, n2, h1), |b| b == n1 || b == n2);
                check_last(h2, memchr::memrchr2(n1, n2, h2), |b| b == n1 || b == n2);
            }
            _ => {
                check_first(h1, memchr::memchr3(n1, n2, n3, h1), |b| b == n1 || b == n2 || b == n3);
                check_first(h2, memchr::memchr3(n1, n2, n3, h2), |b| b == n1 || b == n2 || b == n3);
                check_last(h1, memchr::memrchr3(n1, n2, n3, h1), |b| b == n1 || b == n2 || b == n3);
                check_last(h2, memchr::memrchr3(n1, n2, n3, h2), |b| b == n1 || b == n2 || b == n3);
            }
        }
        kani::cover!(a2, "AVX2 chosen");
        kani::cover!(s2 && !a2, "SSE2 only");
        kani::cover!(!s2, "fallback");
    }

    /// Direct differential: SWAR vs SSE2 vs AVX2 vs top-level on one input.
    pub fn differential<const LEN: usize>(group: u8) {
        let b = Buf::<LEN>::any();
        let h = place(&b.0[..]);
        let (n1, n2, n3): (u8, u8, u8) = (kani::any(), kani::any(), kani::any());
        memchr::verif::force_sse2(Some(true));
        memchr::verif::force_avx2(Some(true));
        match group {
            1 => {
                let w = swar::One::new(n1);
                let s = sse2::memchr::One::new(n1).unwrap();
                let a = avx2::memchr::One::new(n1).unwrap();
                let r = w.find(h);
                check_first(h, r, |b| b == n1);
                assert!(s.find(h) == r && a.find(h) == r && memchr::memchr(n1, h) == r, "oracle: backends disagree on find");
                let r = w.rfind(h);
                assert!(s.rfind(h) == r && a.rfind(h) == r && memchr::memrchr(n1, h) == r, "oracle: backends disagree on rfind");
                let c = w.count(h);
                assert!(s.count(h) == c && a.count(h) == c && memchr::memchr_iter(n1, h).count() == c, "oracle: backends disagree on count");
            }
            2 => {
                let w = swar::Two::new(n1, n2);
                let s = sse2::memchr::Two::new(n1, n2).unwrap();
                let a = avx2::memchr::Two::new(n1, n2).unwrap();
                let r = w.find(h);
                assert!(s.find(h) == r && a.find(h) == r && memchr::memchr2(n1, n2, h) == r, "oracle: backends disagree on find");
                let r = w.rfind(h);
                check_last(h, r, |b| b == n1 || b == n2);
                assert!(s.rfind(h) == r && a.rfind(h) == r && memchr::memrchr2(n1, n2, h) == r, "oracle: backends disagree on rfind");
            }
            _ => {
                let w = swar::Three::new(n1, n2, n3);
                let s = sse2::memchr::Three::new(n1, n2, n3).unwrap();
                let a = avx2::memchr::Three::new(n1, n2, n3).unwrap();
                let r = w.find(h);
                check_first(h, r, |b| b == n1 || b == n2 || b == n3);
                assert!(s.find(h) == r && a.find(h) == r && memchr::memchr3(n1, n2, n3, h) == r, "oracle: backends disagree on find");
                let r = w.rfind(h);
                assert!(s.rfind(h) == r && a.rfind(h) == r && memchr::memrchr3(n1, n2, n3, h) == r, "oracle: backends disagree on rfind");
            }
        }
        kani::cover!(true, "reached");
    }
}

#[cfg(any(vcfg_x86std, vcfg_x86none, vcfg_x86alloc, vcfg_x86avx2, vcfg_x86rel))]
inst!(disp_g1_1_5, [props=C09+C01+C02+C07 xprops=C14 tier=quick cfg=x86std t=1800 role=dispatcher-symbolic-cpu uw=byte_by_byte:34;all::memchr::One::count_raw.0:67;all::memchr:10;find_raw.0:3;find_raw.1:4;count_raw.0:3;count_raw.1:4], 7,
    x86::dispatcher::<1, 5>(1));
#[cfg(any(vcfg_x86std, vcfg_x86none, vcfg_x86alloc, vcfg_x86avx2, vcfg_x86rel))]
inst!(disp_g1_7_15, [props=C09+C01+C02+C07 xprops=C14 tier=quick cfg=x86std t=1800 role=dispatcher-symbolic-cpu uw=byte_by_byte:34;all::memchr::One::count_raw.0:67;all::memchr:10;find_raw.0:3;find_raw.1:4;count_raw.0:3;count_raw.1:4], 17,
    x86::dispatcher::<7, 15>(1));
#[cfg(any(vcfg_x86std, vcfg_x86none, vcfg_x86alloc, vcfg_x86avx2, vcfg_x86rel))]
inst!(disp_g1_16_17, [props=C09+C01+C02+C07 xprops=C14 tier=thorough cfg=x86std t=1800 role=dispatcher-symbolic-cpu uw=byte_by_byte:34;all::memchr::One::count_raw.0:67;all::memchr:10;find_raw.0:3;find_raw.1:4;count_raw.0:3;count_raw.1:4], 19,
    x86::dispatcher::<16, 17>(1));
#[cfg(any(vcfg_x86std, vcfg_x86none, vcfg_x86alloc, vcfg_x86avx2, vcfg_x86rel))]
inst!(disp_g1_31_32, [props=C09+C01+C02+C07 xprops=C14 tier=thorough cfg=x86std t=1800 role=dispatcher-symbolic-cpu uw=byte_by_byte:34;all::memchr::One::count_raw.0:67;all::memchr:10;find_raw.0:3;find_raw.1:4;count_raw.0:3;count_raw.1:4], 34,
    x86::dispatcher::<31, 32>(1));
#[cfg(any(vcfg_x86std, vcfg_x86none, vcfg_x86alloc, vcfg_x86avx2, vcfg_x86rel))]
inst!(disp_g1_33_9, [props=C09+C01+C02+C07 xprops=C14 tier=thorough cfg=x86std t=1800 role=dispatcher-symbolic-cpu uw=byte_by_byte:34;all::memchr::One::count_raw.0:67;all::memchr:10;find_raw.0:3;find_raw.1:4;count_raw.0:3;count_raw.1:4], 35,
    x86::dispatcher::<33, 9>(1));
#[cfg(any(vcfg_x86std, vcfg_x86none, vcfg_x86alloc, vcfg_x86avx2, vcfg_x86rel))]
inst!(disp_g1_1_14, [props=C09+C01+C02+C07 xprops=C14 tier=thorough cfg=x86std t=1800 role=dispatcher-symbolic-cpu uw=byte_by_byte:34;all::memchr::One::count_raw.0:67;all::memchr:10;find_raw.0:3;find_raw.1:4;count_raw.0:3;count_raw.1:4], 16,
    x86::dispatcher::<1, 14>(1));
#[cfg(any(vcfg_x86std, vcfg_x86none, vcfg_x86alloc, vcfg_x86avx2, vcfg_x86rel))]
inst!(disp_g1_8_24, [props=C09+C01+C02+C07 xprops=C14 tier=thorough cfg=x86std t=1800 role=dispatcher-symbolic-cpu uw=byte_by_byte:34;all::memchr::One::count_raw.0:67;all::memchr:10;find_raw.0:3;find_raw.1:4;count_raw.0:3;count_raw.1:4], 26,
    x86::dispatcher::<8, 24>(1));
#[cfg(any(vcfg_x86std, vcfg_x86none, vcfg_x86alloc, vcfg_x86avx2, vcfg_x86rel))]
inst!(disp_g1_15_16, [props=C09+C01+C02+C07 xprops=C14 tier=thorough cfg=x86std t=1800 role=dispatcher-symbolic-cpu uw=byte_by_byte:34;all::memchr::One::count_raw.0:67;all::memchr:10;find_raw.0:3;find_raw.1:4;count_raw.0:3;count_raw.1:4], 18,
    x86::dispatcher::<15, 16>(1));
#[cfg(any(vcfg_x86std, vcfg_x86none, vcfg_x86alloc, vcfg_x86avx2, vcfg_x86rel))]
inst!(disp_g1_17_31, [props=C09+C01+C02+C07 xprops=C14 tier=thorough cfg=x86std t=1800 role=dispatcher-symbolic-cpu uw=byte_by_byte:34;all::memchr::One::count_raw.0:67;all::memchr:10;find_raw.0:3;find_raw.1:4;count_raw.0:3;count_raw.1:4], 33,
    x86::dispatcher::<17, 31>(1));
#[cfg(any(vcfg_x86std, vcfg_x86none, vcfg_x86alloc, vcfg_x86avx2, vcfg_x86rel))]
inst!(disp_g1_32_33, [props=C09+C01+C02+C07 xprops=C14 tier=thorough cfg=x86std t=1800 role=dispatcher-symbolic-cpu uw=byte_by_byte:34;all::memchr::One::count_raw.0:67;all::memchr:10;find_raw.0:3;find_raw.1:4;count_raw.0:3;count_raw.1:4], 35,
    x86::dispatcher::<32, 33>(1));
#[cfg(any(vcfg_x86std, vcfg_x86none, vcfg_x86alloc, vcfg_x86avx2, vcfg_x86rel))]
inst!(disp_g1_40_3, [props=C09+C01+C02+C07 xprops=C14 tier=thorough cfg=x86std t=1800 role=dispatcher-symbolic-cpu uw=byte_by_byte:34;all::memchr::One::count_raw.0:67;all::memchr:10;find_raw.0:3;find_raw.1:4;count_raw.0:3;count_raw.1:4], 42,
    x86::dispatcher::<40, 3>(1));
#[cfg(any(vcfg_x86std, vcfg_x86none, vcfg_x86alloc, vcfg_x86avx2, vcfg_x86rel))]
inst!(disp_g1_47_48, [props=C09+C01+C02+C07 xprops=C14 tier=thorough cfg=x86std t=1800 role=dispatcher-symbolic-cpu uw=byte_by_byte:34;all::memchr::One::count_raw.0:67;all::memchr:10;find_raw.0:3;find_raw.1:4;count_raw.0:3;count_raw.1:4], 50,
    x86::dispatcher::<47, 48>(1));
#[cfg(any(vcfg_x86std, vcfg_x86none, vcfg_x86alloc, vcfg_x86avx2, vcfg_x86rel))]
inst!(disp_g1_63_64, [props=C09+C01+C02+C07 xprops=C14 tier=manual cfg=x86std t=1800 role=dispatcher-symbolic-cpu uw=byte_by_byte:34;all::memchr::One::count_raw.0:67;all::memchr:10;find_raw.0:3;find_raw.1:4;count_raw.0:3;count_raw.1:4], 66,
    x86::dispatcher::<63, 64>(1));
#[cfg(any(vcfg_x86std, vcfg_x86none, vcfg_x86alloc, vcfg_x86avx2, vcfg_x86rel))]
inst!(disp_g1_64_65, [props=C09+C01+C02+C07 xprops=C14 tier=manual cfg=x86std t=1800 role=dispatcher-symbolic-cpu uw=byte_by_byte:34;all::memchr::One::count_raw.0:67;all::memchr:10;find_raw.0:3;find_raw.1:4;count_raw.0:3;count_raw.1:4], 67,
    x86::dispatcher::<64, 65>(1));
#[cfg(any(vcfg_x86std, vcfg_x86none, vcfg_x86alloc, vcfg_x86avx2, vcfg_x86rel))]
inst!(disp_g2_1_5, [props=C09+C01+C02 xprops=C14 tier=quick cfg=x86std t=1800 role=dispatcher-symbolic-cpu uw=byte_by_byte:34;all::memchr::One::count_raw.0:67;all::memchr:10;find_raw.0:3;find_raw.1:4;count_raw.0:3;count_raw.1:4], 3,
    x86::dispatcher::<1, 5>(2));
#[cfg(any(vcfg_x86std, vcfg_x86none, vcfg_x86alloc, vcfg_x86avx2, vcfg_x86rel))]
inst!(disp_g2_7_15, [props=C09+C01+C02 xprops=C14 tier=quick cfg=x86std t=1800 role=dispatcher-symbolic-cpu uw=byte_by_byte:34;all::memchr::One::count_raw.0:67;all::memchr:10;find_raw.0:3;find_raw.1:4;count_raw.0:3;count_raw.1:4], 3,
    x86::dispatcher::<7, 15>(2));
#[cfg(any(vcfg_x86std, vcfg_x86none, vcfg_x86alloc, vcfg_x86avx2, vcfg_x86rel))]
inst!(disp_g2_16_17, [props=C09+C01+C02 xprops=C14 tier=manual cfg=x86std t=1800 role=dispatcher-symbolic-cpu uw=byte_by_byte:34;all::memchr::One::count_raw.0:67;all::memchr:10;find_raw.0:3;find_raw.1:4;count_raw.0:3;count_raw.1:4], 3,
    x86::dispatcher::<16, 17>(2));
#[cfg(any(vcfg_x86std, vcfg_x86none, vcfg_x86alloc, vcfg_x86avx2, vcfg_x86rel))]
inst!(disp_g2_31_32, [props=C09+C01+C02 xprops=C14 tier=manual cfg=x86std t=1800 role=dispatcher-symbolic-cpu uw=byte_by_byte:34;all::memchr::One::count_raw.0:67;all::memchr:10;find_raw.0:3;find_raw.1:4;count_raw.0:3;count_raw.1:4], 3,
    x86::dispatcher::<31, 32>(2));
#[cfg(any(vcfg_x86std, vcfg_x86none, vcfg_x86alloc, vcfg_x86avx2, vcfg_x86rel))]
inst!(disp_g2_33_9, [props=C09+C01+C02 xprops=C14 tier=manual cfg=x86std t=1800 role=dispatcher-symbolic-cpu uw=byte_by_byte:34;all::memchr::One::count_raw.0:67;all::memchr:10;find_raw.0:3;find_raw.1:4;count_raw.0:3;count_raw.1:4], 3,
    x86::dispatcher::<33, 9>(2));
#[cfg(any(vcfg_x86std, vcfg_x86none, vcfg_x86alloc, vcfg_x86avx2, vcfg_x86rel))]
inst!(disp_g2_1_14, [props=C09+C01+C02 xprops=C14 tier=thorough cfg=x86std t=1800 role=dispatcher-symbolic-cpu uw=byte_by_byte:34;all::memchr::One::count_raw.0:67;all::memchr:10;find_raw.0:3;find_raw.1:4;count_raw.0:3;count_raw.1:4], 3,
    x86::dispatcher::<1, 14>(2));
#[cfg(any(vcfg_x86std, vcfg_x86none, vcfg_x86alloc, vcfg_x86avx2, vcfg_x86rel))]
inst!(disp_g2_8_24, [props=C09+C01+C02 xprops=C14 tier=thorough cfg=x86std t=1800 role=dispatcher-symbolic-cpu uw=byte_by_byte:34;all::memchr::One::count_raw.0:67;all::memchr:10;find_raw.0:3;find_raw.1:4;count_raw.0:3;count_raw.1:4], 3,
    x86::dispatcher::<8, 24>(2));
#[cfg(any(vcfg_x86std, vcfg_x86none, vcfg_x86alloc, vcfg_x86avx2, vcfg_x86rel))]
inst!(disp_g2_15_16, [props=C09+C01+C02 xprops=C14 tier=thorough cfg=x86std t=1800 role=dispatcher-symbolic-cpu uw=byte_by_byte:34;all::memchr::One::count_raw.0:67;all::memchr:10;find_raw.0:3;find_raw.1:4;count_raw.0:3;count_raw.1:4], 3,
    x86::dispatcher::<15, 16>(2));
#[cfg(any(vcfg_x86std, vcfg_x86none, vcfg_x86alloc, vcfg_x86avx2, vcfg_x86rel))]
inst!(disp_g2_17_31, [props=C09+C01+C02 xprops=C14 tier=manual cfg=x86std t=1800 role=dispatcher-symbolic-cpu uw=byte_by_byte:34;all::memchr::One::count_raw.0:67;all::memchr:10;find_raw.0:3;find_raw.1:4;count_raw.0:3;count_raw.1:4], 3,
    x86::dispatcher::<17, 31>(2));
#[cfg(any(vcfg_x86std, vcfg_x86none, vcfg_x86alloc, vcfg_x86avx2, vcfg_x86rel))]
inst!(disp_g2_32_33, [props=C09+C01+C02 xprops=C14 tier=manual cfg=x86std t=1800 role=dispatcher-symbolic-cpu uw=byte_by_byte:34;all::memchr::One::count_raw.0:67;all::memchr:10;find_raw.0:3;find_raw.1:4;count_raw.0:3;count_raw.1:4], 3,
    x86::dispatcher::<32, 33>(2));
#[cfg(any(vcfg_x86std, vcfg_x86none, vcfg_x86alloc, vcfg_x86avx2, vcfg_x86rel))]
inst!(disp_g2_40_3, [props=C09+C01+C02 xprops=C14 tier=thorough cfg=x86std t=1800 role=dispatcher-symbolic-cpu uw=byte_by_byte:34;all::memchr::One::count_raw.0:67;all::memchr:10;find_raw.0:3;find_raw.1:4;count_raw.0:3;count_raw.1:4], 3,
    x86::dispatcher::<40, 3>(2));
#[cfg(any(vcfg_x86std, vcfg_x86none, vcfg_x86alloc, vcfg_x86avx2, vcfg_x86rel))]
inst!(disp_g2_47_48, [props=C09+C01+C02 xprops=C14 tier=manual cfg=x86std t=1800 role=dispatcher-symbolic-cpu uw=byte_by_byte:34;all::memchr::One::count_raw.0:67;all::memchr:10;find_raw.0:3;find_raw.1:4;count_raw.0:3;count_raw.1:4], 3,
    x86::dispatcher::<47, 48>(2));
#[cfg(any(vcfg_x86std, vcfg_x86none, vcfg_x86alloc, vcfg_x86avx2, vcfg_x86rel))]
inst!(disp_g2_63_64, [props=C09+C01+C02 xprops=C14 tier=manual cfg=x86std t=1800 role=dispatcher-symbolic-cpu uw=byte_by_byte:34;all::memchr::One::count_raw.0:67;all::memchr:10;find_raw.0:3;find_raw.1:4;count_raw.0:3;count_raw.1:4], 3,
    x86::dispatcher::<63, 64>(2));
#[cfg(any(vcfg_x86std, vcfg_x86none, vcfg_x86alloc, vcfg_x86avx2, vcfg_x86rel))]
inst!(disp_g2_64_65, [props=C09+C01+C02 xprops=C14 tier=manual cfg=x86std t=1800 role=dispatcher-symbolic-cpu uw=byte_by_byte:34;all::memchr::One::count_raw.0:67;all::memchr:10;find_raw.0:3;find_raw.1:4;count_raw.0:3;count_raw.1:4], 3,
    x86::dispatcher::<64, 65>(2));
#[cfg(any(vcfg_x86std, vcfg_x86none, vcfg_x86alloc, vcfg_x86avx2, vcfg_x86rel))]
inst!(disp_g3_1_5, [props=C09+C01+C02 xprops=C14 tier=quick cfg=x86std t=1800 role=dispatcher-symbolic-cpu uw=byte_by_byte:34;all::memchr::One::count_raw.0:67;all::memchr:10;find_raw.0:3;find_raw.1:4;count_raw.0:3;count_raw.1:4], 3,
    x86::dispatcher::<1, 5>(3));
#[cfg(any(vcfg_x86std, vcfg_x86none, vcfg_x86alloc, vcfg_x86avx2, vcfg_x86rel))]
inst!(disp_g3_7_15, [props=C09+C01+C02 xprops=C14 tier=quick cfg=x86std t=1800 role=dispatcher-symbolic-cpu uw=byte_by_byte:34;all::memchr::One::count_raw.0:67;all::memchr:10;find_raw.0:3;find_raw.1:4;count_raw.0:3;count_raw.1:4], 3,
    x86::dispatcher::<7, 15>(3));
#[cfg(any(vcfg_x86std, vcfg_x86none, vcfg_x86alloc, vcfg_x86avx2, vcfg_x86rel))]
inst!(disp_g3_16_17, [props=C09+C01+C02 xprops=C14 tier=manual cfg=x86std t=1800 role=dispatcher-symbolic-cpu uw=byte_by_byte:34;all::memchr::One::count_raw.0:67;all::memchr:10;find_raw.0:3;find_raw.1:4;count_raw.0:3;count_raw.1:4], 3,
    x86::dispatcher::<16, 17>(3));
#[cfg(any(vcfg_x86std, vcfg_x86none, vcfg_x86alloc, vcfg_x86avx2, vcfg_x86rel))]
inst!(disp_g3_31_32, [props=C09+C01+C02 xprops=C14 tier=manual cfg=x86std t=1800 role=dispatcher-symbolic-cpu uw=byte_by_byte:34;all::memchr::One::count_raw.0:67;all::memchr:10;find_raw.0:3;find_raw.1:4;count_raw.0:3;count_raw.1:4], 3,
    x86::dispatcher::<31, 32>(3));
#[cfg(any(vcfg_x86std, vcfg_x86none, vcfg_x86alloc, vcfg_x86avx2, vcfg_x86rel))]
inst!(disp_g3_33_9, [props=C09+C01+C02 xprops=C14 tier=manual cfg=x86std t=1800 role=dispatcher-symbolic-cpu uw=byte_by_byte:34;all::memchr::One::count_raw.0:67;all::memchr:10;find_raw.0:3;find_raw.1:4;count_raw.0:3;count_raw.1:4], 3,
    x86::dispatcher::<33, 9>(3));
#[cfg(any(vcfg_x86std, vcfg_x86none, vcfg_x86alloc, vcfg_x86avx2, vcfg_x86rel))]
inst!(disp_g3_1_14, [props=C09+C01+C02 xprops=C14 tier=thorough cfg=x86std t=1800 role=dispatcher-symbolic-cpu uw=byte_by_byte:34;all::memchr::One::count_raw.0:67;all::memchr:10;find_raw.0:3;find_raw.1:4;count_raw.0:3;count_raw.1:4], 3,
    x86::dispatcher::<1, 14>(3));
#[cfg(any(vcfg_x86std, vcfg_x86none, vcfg_x86alloc, vcfg_x86avx2, vcfg_x86rel))]
inst!(disp_g3_8_24, [props=C09+C01+C02 xprops=C14 tier=thorough cfg=x86std t=1800 role=dispatcher-symbolic-cpu uw=byte_by_byte:34;all::memchr::One::count_raw.0:67;all::memchr:10;find_raw.0:3;find_raw.1:4;count_raw.0:3;count_raw.1:4], 3,
    x86::dispatcher::<8, 24>(3));
#[cfg(any(vcfg_x86std, vcfg_x86none, vcfg_x86alloc, vcfg_x86avx2, vcfg_x86rel))]
inst!(disp_g3_15_16, [props=C09+C01+C02 xprops=C14 tier=thorough cfg=x86std t=1800 role=dispatcher-symbolic-cpu uw=byte_by_byte:34;all::memchr::One::count_raw.0:67;all::memchr:10;find_raw.0:3;find_raw.1:4;count_raw.0:3;count_raw.1:4], 3,
    x86::dispatcher::<15, 16>(3));
#[cfg(any(vcfg_x86std, vcfg_x86none, vcfg_x86alloc, vcfg_x86avx2, vcfg_x86rel))]
inst!(disp_g3_17_31, [props=C09+C01+C02 xprops=C14 tier=manual cfg=x86std t=1800 role=dispatcher-symbolic-cpu uw=byte_by_byte:34;all::memchr::One::count_raw.0:67;all::memchr:10;find_raw.0:3;find_raw.1:4;count_raw.0:3;count_raw.1:4], 3,
    x86::dispatcher::<17, 31>(3));
#[cfg(any(vcfg_x86std, vcfg_x86none, vcfg_x86alloc, vcfg_x86avx2, vcfg_x86rel))]
inst!(disp_g3_32_33, [props=C09+C01+C02 xprops=C14 tier=manual cfg=x86std t=1800 role=dispatcher-symbolic-cpu uw=byte_by_byte:34;all::memchr::One::count_raw.0:67;all::memchr:10;find_raw.0:3;find_raw.1:4;count_raw.0:3;count_raw.1:4], 3,
    x86::dispatcher::<32, 33>(3));
#[cfg(any(vcfg_x86std, vcfg_x86none, vcfg_x86alloc, vcfg_x86avx2, vcfg_x86rel))]
inst!(disp_g3_40_3, [props=C09+C01+C02 xprops=C14 tier=manual cfg=x86std t=1800 role=dispatcher-symbolic-cpu uw=byte_by_byte:34;all::memchr::One::count_raw.0:67;all::memchr:10;find_raw.0:3;find_raw.1:4;count_raw.0:3;count_raw.1:4], 3,
    x86::dispatcher::<40, 3>(3));
#[cfg(any(vcfg_x86std, vcfg_x86none, vcfg_x86alloc, vcfg_x86avx2, vcfg_x86rel))]
inst!(disp_g3_47_48, [props=C09+C01+C02 xprops=C14 tier=manual cfg=x86std t=1800 role=dispatcher-symbolic-cpu uw=byte_by_byte:34;all::memchr::One::count_raw.0:67;all::memchr:10;find_raw.0:3;find_raw.1:4;count_raw.0:3;count_raw.1:4], 3,
    x86::dispatcher::<47, 48>(3));
#[cfg(any(vcfg_x86std, vcfg_x86none, vcfg_x86alloc, vcfg_x86avx2, vcfg_x86rel))]
inst!(disp_g3_63_64, [props=C09+C01+C02 xprops=C14 tier=manual cfg=x86std t=1800 role=dispatcher-symbolic-cpu uw=byte_by_byte:34;all::memchr::One::count_raw.0:67;all::memchr:10;find_raw.0:3;find_raw.1:4;count_raw.0:3;count_raw.1:4], 3,
    x86::dispatcher::<63, 64>(3));
#[cfg(any(vcfg_x86std, vcfg_x86none, vcfg_x86alloc, vcfg_x86avx2, vcfg_x86rel))]
inst!(disp_g3_64_65, [props=C09+C01+C02 xprops=C14 tier=manual cfg=x86std t=1800 role=dispatcher-symbolic-cpu uw=byte_by_byte:34;all::memchr::One::count_raw.0:67;all::memchr:10;find_raw.0:3;find_raw.1:4;count_raw.0:3;count_raw.1:4], 3,
    x86::dispatcher::<64, 65>(3));
#[cfg(any(vcfg_x86std, vcfg_x86none, vcfg_x86alloc, vcfg_x86avx2, vcfg_x86rel))]
inst!(diff_g1_12, [props=C09 xprops=C14 tier=quick cfg=x86std t=1800 role=backend-differential uw=byte_by_byte:34;all::memchr::One::count_raw.0:67;all::memchr:10;find_raw.0:3;find_raw.1:4;count_raw.0:3;count_raw.1:4], 3,
    x86::differential::<12>(1));
#[cfg(any(vcfg_x86std, vcfg_x86none, vcfg_x86alloc, vcfg_x86avx2, vcfg_x86rel))]
inst!(diff_g1_18, [props=C09 xprops=C14 tier=thorough cfg=x86std t=1800 role=backend-differential uw=byte_by_byte:34;all::memchr::One::count_raw.0:67;all::memchr:10;find_raw.0:3;find_raw.1:4;count_raw.0:3;count_raw.1:4], 3,
    x86::differential::<18>(1));
#[cfg(any(vcfg_x86std, vcfg_x86none, vcfg_x86alloc, vcfg_x86avx2, vcfg_x86rel))]
inst!(diff_g1_34, [props=C09 xprops=C14 tier=thorough cfg=x86std t=1800 role=backend-differential uw=byte_by_byte:34;all::memchr::One::count_raw.0:67;all::memchr:10;find_raw.0:3;find_raw.1:4;count_raw.0:3;count_raw.1:4], 3,
    x86::differential::<34>(1));
#[cfg(any(vcfg_x86std, vcfg_x86none, vcfg_x86alloc, vcfg_x86avx2, vcfg_x86rel))]
inst!(diff_g1_0, [props=C09 xprops=C14 tier=manual cfg=x86std t=1800 role=backend-differential uw=byte_by_byte:34;all::memchr::One::count_raw.0:67;all::memchr:10;find_raw.0:3;find_raw.1:4;count_raw.0:3;count_raw.1:4], 3,
    x86::differential::<0>(1));
#[cfg(any(vcfg_x86std, vcfg_x86none, vcfg_x86alloc, vcfg_x86avx2, vcfg_x86rel))]
inst!(diff_g1_1, [props=C09 xprops=C14 tier=thorough cfg=x86std t=1800 role=backend-differential uw=byte_by_byte:34;all::memchr::One::count_raw.0:67;all::memchr:10;find_raw.0:3;find_raw.1:4;count_raw.0:3;count_raw.1:4], 3,
    x86::differential::<1>(1));
#[cfg(any(vcfg_x86std, vcfg_x86none, vcfg_x86alloc, vcfg_x86avx2, vcfg_x86rel))]
inst!(diff_g1_15, [props=C09 xprops=C14 tier=thorough cfg=x86std t=1800 role=backend-differential uw=byte_by_byte:34;all::memchr::One::count_raw.0:67;all::memchr:10;find_raw.0:3;find_raw.1:4;count_raw.0:3;count_raw.1:4], 3,
    x86::differential::<15>(1));
#[cfg(any(vcfg_x86std, vcfg_x86none, vcfg_x86alloc, vcfg_x86avx2, vcfg_x86rel))]
inst!(diff_g1_16, [props=C09 xprops=C14 tier=thorough cfg=x86std t=1800 role=backend-differential uw=byte_by_byte:34;all::memchr::One::count_raw.0:67;all::memchr:10;find_raw.0:3;find_raw.1:4;count_raw.0:3;count_raw.1:4], 3,
    x86::differential::<16>(1));
#[cfg(any(vcfg_x86std, vcfg_x86none, vcfg_x86alloc, vcfg_x86avx2, vcfg_x86rel))]
inst!(diff_g1_17, [props=C09 xprops=C14 tier=thorough cfg=x86std t=1800 role=backend-differential uw=byte_by_byte:34;all::memchr::One::count_raw.0:67;all::memchr:10;find_raw.0:3;find_raw.1:4;count_raw.0:3;count_raw.1:4], 3,
    x86::differential::<17>(1));
#[cfg(any(vcfg_x86std, vcfg_x86none, vcfg_x86alloc, vcfg_x86avx2, vcfg_x86rel))]
inst!(diff_g1_31, [props=C09 xprops=C14 tier=thorough cfg=x86std t=1800 role=backend-differential uw=byte_by_byte:34;all::memchr::One::count_raw.0:67;all::memchr:10;find_raw.0:3;find_raw.1:4;count_raw.0:3;count_raw.1:4], 3,
    x86::differential::<31>(1));
#[cfg(any(vcfg_x86std, vcfg_x86none, vcfg_x86alloc, vcfg_x86avx2, vcfg_x86rel))]
inst!(diff_g1_32, [props=C09 xprops=C14 tier=thorough cfg=x86std t=1800 role=backend-differential uw=byte_by_byte:34;all::memchr::One::count_raw.0:67;all::memchr:10;find_raw.0:3;find_raw.1:4;count_raw.0:3;count_raw.1:4], 3,
    x86::differential::<32>(1));
#[cfg(any(vcfg_x86std, vcfg_x86none, vcfg_x86alloc, vcfg_x86avx2, vcfg_x86rel))]
inst!(diff_g1_33, [props=C09 xprops=C14 tier=thorough cfg=x86std t=1800 role=backend-differential uw=byte_by_byte:34;all::memchr::One::count_raw.0:67;all::memchr:10;find_raw.0:3;find_raw.1:4;count_raw.0:3;count_raw.1:4], 3,
    x86::differential::<33>(1));
#[cfg(any(vcfg_x86std, vcfg_x86none, vcfg_x86alloc, vcfg_x86avx2, vcfg_x86rel))]
inst!(diff_g1_40, [props=C09 xprops=C14 tier=thorough cfg=x86std t=1800 role=backend-differential uw=byte_by_byte:34;all::memchr::One::count_raw.0:67;all::memchr:10;find_raw.0:3;find_raw.1:4;count_raw.0:3;count_raw.1:4], 3,
    x86::differential::<40>(1));
#[cfg(any(vcfg_x86std, vcfg_x86none, vcfg_x86alloc, vcfg_x86avx2, vcfg_x86rel))]
inst!(diff_g1_64, [props=C09 xprops=C14 tier=manual cfg=x86std t=1800 role=backend-differential uw=byte_by_byte:34;all::memchr::One::count_raw.0:67;all::memchr:10;find_raw.0:3;find_raw.1:4;count_raw.0:3;count_raw.1:4], 3,
    x86::differential::<64>(1));
#[cfg(any(vcfg_x86std, vcfg_x86none, vcfg_x86alloc, vcfg_x86avx2, vcfg_x86rel))]
inst!(diff_g1_65, [props=C09 xprops=C14 tier=manual cfg=x86std t=1800 role=backend-differential uw=byte_by_byte:34;all::memchr::One::count_raw.0:67;all::memchr:10;find_raw.0:3;find_raw.1:4;count_raw.0:3;count_raw.1:4], 3,
    x86::differential::<65>(1));
#[cfg(any(vcfg_x86std, vcfg_x86none, vcfg_x86alloc, vcfg_x86avx2, vcfg_x86rel))]
inst!(diff_g2_12, [props=C09 xprops=C14 tier=quick cfg=x86std t=1800 role=backend-differential uw=byte_by_byte:34;all::memchr::One::count_raw.0:67;all::memchr:10;find_raw.0:3;find_raw.1:4;count_raw.0:3;count_raw.1:4], 3,
    x86::differential::<12>(2));
#[cfg(any(vcfg_x86std, vcfg_x86none, vcfg_x86alloc, vcfg_x86avx2, vcfg_x86rel))]
inst!(diff_g2_18, [props=C09 xprops=C14 tier=thorough cfg=x86std t=1800 role=backend-differential uw=byte_by_byte:34;all::memchr::One::count_raw.0:67;all::memchr:10;find_raw.0:3;find_raw.1:4;count_raw.0:3;count_raw.1:4], 3,
    x86::differential::<18>(2));
#[cfg(any(vcfg_x86std, vcfg_x86none, vcfg_x86alloc, vcfg_x86avx2, vcfg_x86rel))]
inst!(diff_g2_34, [props=C09 xprops=C14 tier=manual cfg=x86std t=1800 role=backend-differential uw=byte_by_byte:34;all::memchr::One::count_raw.0:67;all::memchr:10;find_raw.0:3;find_raw.1:4;count_raw.0:3;count_raw.1:4], 3,
    x86::differential::<34>(2));
#[cfg(any(vcfg_x86std, vcfg_x86none, vcfg_x86alloc, vcfg_x86avx2, vcfg_x86rel))]
inst!(diff_g2_0, [props=C09 xprops=C14 tier=manual cfg=x86std t=1800 role=backend-differential uw=byte_by_byte:34;all::memchr::One::count_raw.0:67;all::memchr:10;find_raw.0:3;find_raw.1:4;count_raw.0:3;count_raw.1:4], 3,
    x86::differential::<0>(2));
#[cfg(any(vcfg_x86std, vcfg_x86none, vcfg_x86alloc, vcfg_x86avx2, vcfg_x86rel))]
inst!(diff_g2_1, [props=C09 xprops=C14 tier=thorough cfg=x86std t=1800 role=backend-differential uw=byte_by_byte:34;all::memchr::One::count_raw.0:67;all::memchr:10;find_raw.0:3;find_raw.1:4;count_raw.0:3;count_raw.1:4], 3,
    x86::differential::<1>(2));
#[cfg(any(vcfg_x86std, vcfg_x86none, vcfg_x86alloc, vcfg_x86avx2, vcfg_x86rel))]
inst!(diff_g2_15, [props=C09 xprops=C14 tier=thorough cfg=x86std t=1800 role=backend-differential uw=byte_by_byte:34;all::memchr::One::count_raw.0:67;all::memchr:10;find_raw.0:3;find_raw.1:4;count_raw.0:3;count_raw.1:4], 3,
    x86::differential::<15>(2));
#[cfg(any(vcfg_x86std, vcfg_x86none, vcfg_x86alloc, vcfg_x86avx2, vcfg_x86rel))]
inst!(diff_g2_16, [props=C09 xprops=C14 tier=thorough cfg=x86std t=1800 role=backend-differential uw=byte_by_byte:34;all::memchr::One::count_raw.0:67;all::memchr:10;find_raw.0:3;find_raw.1:4;count_raw.0:3;count_raw.1:4], 3,
    x86::differential::<16>(2));
#[cfg(any(vcfg_x86std, vcfg_x86none, vcfg_x86alloc, vcfg_x86avx2, vcfg_x86rel))]
inst!(diff_g2_17, [props=C09 xprops=C14 tier=thorough cfg=x86std t=1800 role=backend-differential uw=byte_by_byte:34;all::memchr::One::count_raw.0:67;all::memchr:10;find_raw.0:3;find_raw.1:4;count_raw.0:3;count_raw.1:4], 3,
    x86::differential::<17>(2));
#[cfg(any(vcfg_x86std, vcfg_x86none, vcfg_x86alloc, vcfg_x86avx2, vcfg_x86rel))]
inst!(diff_g2_31, [props=C09 xprops=C14 tier=manual cfg=x86std t=1800 role=backend-differential uw=byte_by_byte:34;all::memchr::One::count_raw.0:67;all::memchr:10;find_raw.0:3;find_raw.1:4;count_raw.0:3;count_raw.1:4], 3,
    x86::differential::<31>(2));
#[cfg(any(vcfg_x86std, vcfg_x86none, vcfg_x86alloc, vcfg_x86avx2, vcfg_x86rel))]
inst!(diff_g2_32, [props=C09 xprops=C14 tier=manual cfg=x86std t=1800 role=backend-differential uw=byte_by_byte:34;all::memchr::One::count_raw.0:67;all::memchr:10;find_raw.0:3;find_raw.1:4;count_raw.0:3;count_raw.1:4], 3,
    x86::differential::<32>(2));
#[cfg(any(vcfg_x86std, vcfg_x86none, vcfg_x86alloc, vcfg_x86avx2, vcfg_x86rel))]
inst!(diff_g2_33, [props=C09 xprops=C14 tier=manual cfg=x86std t=1800 role=backend-differential uw=byte_by_byte:34;all::memchr::One::count_raw.0:67;all::memchr:10;find_raw.0:3;find_raw.1:4;count_raw.0:3;count_raw.1:4], 3,
    x86::differential::<33>(2));
#[cfg(any(vcfg_x86std, vcfg_x86none, vcfg_x86alloc, vcfg_x86avx2, vcfg_x86rel))]
inst!(diff_g2_40, [props=C09 xprops=C14 tier=manual cfg=x86std t=1800 role=backend-differential uw=byte_by_byte:34;all::memchr::One::count_raw.0:67;all::memchr:10;find_raw.0:3;find_raw.1:4;count_raw.0:3;count_raw.1:4], 3,
    x86::differential::<40>(2));
#[cfg(any(vcfg_x86std, vcfg_x86none, vcfg_x86alloc, vcfg_x86avx2, vcfg_x86rel))]
inst!(diff_g2_64, [props=C09 xprops=C14 tier=manual cfg=x86std t=1800 role=backend-differential uw=byte_by_byte:34;all::memchr::One::count_raw.0:67;all::memchr:10;find_raw.0:3;find_raw.1:4;count_raw.0:3;count_raw.1:4], 3,
    x86::differential::<64>(2));
#[cfg(any(vcfg_x86std, vcfg_x86none, vcfg_x86alloc, vcfg_x86avx2, vcfg_x86rel))]
inst!(diff_g2_65, [props=C09 xprops=C14 tier=manual cfg=x86std t=1800 role=backend-differential uw=byte_by_byte:34;all::memchr::One::count_raw.0:67;all::memchr:10;find_raw.0:3;find_raw.1:4;count_raw.0:3;count_raw.1:4], 3,
    x86::differential::<65>(2));
#[cfg(any(vcfg_x86std, vcfg_x86none, vcfg_x86alloc, vcfg_x86avx2, vcfg_x86rel))]
inst!(diff_g3_12, [props=C09 xprops=C14 tier=quick cfg=x86std t=1800 role=backend-differential uw=byte_by_byte:34;all::memchr::One::count_raw.0:67;all::memchr:10;find_raw.0:3;find_raw.1:4;count_raw.0:3;count_raw.1:4], 3,
    x86::differential::<12>(3));
#[cfg(any(vcfg_x86std, vcfg_x86none, vcfg_x86alloc, vcfg_x86avx2, vcfg_x86rel))]
inst!(diff_g3_18, [props=C09 xprops=C14 tier=manual cfg=x86std t=1800 role=backend-differential uw=byte_by_byte:34;all::memchr::One::count_raw.0:67;all::memchr:10;find_raw.0:3;find_raw.1:4;count_raw.0:3;count_raw.1:4], 3,
    x86::differential::<18>(3));
#[cfg(any(vcfg_x86std, vcfg_x86none, vcfg_x86alloc, vcfg_x86avx2, vcfg_x86rel))]
inst!(diff_g3_34, [props=C09 xprops=C14 tier=manual cfg=x86std t=1800 role=backend-differential uw=byte_by_byte:34;all::memchr::One::count_raw.0:67;all::memchr:10;find_raw.0:3;find_raw.1:4;count_raw.0:3;count_raw.1:4], 3,
    x86::differential::<34>(3));
#[cfg(any(vcfg_x86std, vcfg_x86none, vcfg_x86alloc, vcfg_x86avx2, vcfg_x86rel))]
inst!(diff_g3_0, [props=C09 xprops=C14 tier=manual cfg=x86std t=1800 role=backend-differential uw=byte_by_byte:34;all::memchr::One::count_raw.0:67;all::memchr:10;find_raw.0:3;find_raw.1:4;count_raw.0:3;count_raw.1:4], 3,
    x86::differential::<0>(3));
#[cfg(any(vcfg_x86std, vcfg_x86none, vcfg_x86alloc, vcfg_x86avx2, vcfg_x86rel))]
inst!(diff_g3_1, [props=C09 xprops=C14 tier=thorough cfg=x86std t=1800 role=backend-differential uw=byte_by_byte:34;all::memchr::One::count_raw.0:67;all::memchr:10;find_raw.0:3;find_raw.1:4;count_raw.0:3;count_raw.1:4], 3,
    x86::differential::<1>(3));
#[cfg(any(vcfg_x86std, vcfg_x86none, vcfg_x86alloc, vcfg_x86avx2, vcfg_x86rel))]
inst!(diff_g3_15, [props=C09 xprops=C14 tier=thorough cfg=x86std t=1800 role=backend-differential uw=byte_by_byte:34;all::memchr::One::count_raw.0:67;all::memchr:10;find_raw.0:3;find_raw.1:4;count_raw.0:3;count_raw.1:4], 3,
    x86::differential::<15>(3));
#[cfg(any(vcfg_x86std, vcfg_x86none, vcfg_x86alloc, vcfg_x86avx2, vcfg_x86rel))]
inst!(diff_g3_16, [props=C09 xprops=C14 tier=manual cfg=x86std t=1800 role=backend-differential uw=byte_by_byte:34;all::memchr::One::count_raw.0:67;all::memchr:10;find_raw.0:3;find_raw.1:4;count_raw.0:3;count_raw.1:4], 3,
    x86::differential::<16>(3));
#[cfg(any(vcfg_x86std, vcfg_x86none, vcfg_x86alloc, vcfg_x86avx2, vcfg_x86rel))]
inst!(diff_g3_17, [props=C09 xprops=C14 tier=manual cfg=x86std t=1800 role=backend-differential uw=byte_by_byte:34;all::memchr::One::count_raw.0:67;all::memchr:10;find_raw.0:3;find_raw.1:4;count_raw.0:3;count_raw.1:4], 3,
    x86::differential::<17>(3));
#[cfg(any(vcfg_x86std, vcfg_x86none, vcfg_x86alloc, vcfg_x86avx2, vcfg_x86rel))]
inst!(diff_g3_31, [props=C09 xprops=C14 tier=manual cfg=x86std t=1800 role=backend-differential uw=byte_by_byte:34;all::memchr::One::count_raw.0:67;all::memchr:10;find_raw.0:3;find_raw.1:4;count_raw.0:3;count_raw.1:4], 3,
    x86::differential::<31>(3));
#[cfg(any(vcfg_x86std, vcfg_x86none, vcfg_x86alloc, vcfg_x86avx2, vcfg_x86rel))]
inst!(diff_g3_32, [props=C09 xprops=C14 tier=manual cfg=x86std t=1800 role=backend-differential uw=byte_by_byte:34;all::memchr::One::count_raw.0:67;all::memchr:10;find_raw.0:3;find_raw.1:4;count_raw.0:3;count_raw.1:4], 3,
    x86::differential::<32>(3));
#[cfg(any(vcfg_x86std, vcfg_x86none, vcfg_x86alloc, vcfg_x86avx2, vcfg_x86rel))]
inst!(diff_g3_33, [props=C09 xprops=C14 tier=manual cfg=x86std t=1800 role=backend-differential uw=byte_by_byte:34;all::memchr::One::count_raw.0:67;all::memchr:10;find_raw.0:3;find_raw.1:4;count_raw.0:3;count_raw.1:4], 3,
    x86::differential::<33>(3));
#[cfg(any(vcfg_x86std, vcfg_x86none, vcfg_x86alloc, vcfg_x86avx2, vcfg_x86rel))]
inst!(diff_g3_40, [props=C09 xprops=C14 tier=manual cfg=x86std t=1800 role=backend-differential uw=byte_by_byte:34;all::memchr::One::count_raw.0:67;all::memchr:10;find_raw.0:3;find_raw.1:4;count_raw.0:3;count_raw.1:4], 3,
    x86::differential::<40>(3));
#[cfg(any(vcfg_x86std, vcfg_x86none, vcfg_x86alloc, vcfg_x86avx2, vcfg_x86rel))]
inst!(diff_g3_64, [props=C09 xprops=C14 tier=manual cfg=x86std t=1800 role=backend-differential uw=byte_by_byte:34;all::memchr::One::count_raw.0:67;all::memchr:10;find_raw.0:3;find_raw.1:4;count_raw.0:3;count_raw.1:4], 3,
    x86::differential::<64>(3));
#[cfg(any(vcfg_x86std, vcfg_x86none, vcfg_x86alloc, vcfg_x86avx2, vcfg_x86rel))]
inst!(diff_g3_65, [props=C09 xprops=C14 tier=manual cfg=x86std t=1800 role=backend-differential uw=byte_by_byte:34;all::memchr::One::count_raw.0:67;all::memchr:10;find_raw.0:3;find_raw.1:4;count_raw.0:3;count_raw.1:4], 3,
    x86::differential::<65>(3));

// ---------------------------------------------------------------------------
// Configuration matrix: the same oracle harnesses in builds with other cargo
// features / compile-time target features, WITHOUT forcing detection (the
// crate's own static decisions are exercised: no std => SSE2 statically,
// +avx2 => AVX2 statically).

#[cfg(all(kani, any(vcfg_x86none, vcfg_x86alloc, vcfg_x86avx2)))]
pub mod matrix {
    use super::*;

    pub fn top<const LEN: usize>() {
        let b = Buf::<LEN>::any();
        let h = place(&b.0[..]);
        let (n1, n2, n3): (u8, u8, u8) = (kani::any(), kani::any(), kani::any());
        check_first(h, memchr::memchr(n1, h), |b| b == n1);
        check_last(h, memchr::memrchr(n1, h), |b| b == n1);
        check_first(h, memchr::memchr2(n1, n2, h), |b| b == n1 || b == n2);
        check_last(h, memchr::memrchr3(n1, n2, n3, h), |b| b == n1 || b == n2 || b == n3);
        let c = memchr::memchr_iter(n1, h).count();
        assert!(c == count(h, |b| b == n1), "oracle: count differs from the number of matching bytes");
        #[cfg(vcfg_x86avx2)]
        assert!(memchr::arch::x86_64::avx2::memchr::One::is_available(), "oracle: +avx2 build must select AVX2 statically");
        #[cfg(vcfg_x86none)]
        assert!(!memchr::arch::x86_64::avx2::memchr::One::is_available(), "oracle: no-std build cannot detect AVX2");
        kani::cover!(c > 1, "several matches");
    }

    pub fn substring<const NLEN: usize, const HCAP: usize>(hmin: usize, hmax: usize) {
        let nb: [u8; NLEN] = kani::any();
        let n = place(&nb[..]);
        let (hb, hlen) = crate::substr::sym_hay::<HCAP>(hmin, hmax);
        let h = place(&hb.0[..hlen]);
        let r = memchr::memmem::Finder::new(n).find(h);
        check_leftmost(h, n, r);
        assert!(memchr::memmem::find(h, n) == r, "oracle: memmem::find differs from Finder::find");
        let rr = memchr::memmem::FinderRev::new(n).rfind(h);
        check_rightmost(h, n, rr);
        kani::cover!(r.is_some() && hlen == hmax, "occurrence at max length");
    }
}

#[cfg(any(vcfg_x86none, vcfg_x86alloc, vcfg_x86avx2))]
inst!(mx_top_12, [props=C09 xprops=C14 tier=quick cfg=x86none+x86alloc+x86avx2 t=1800 role=config-matrix-bytes uw=byte_by_byte:34;all::memchr::One::count_raw.0:67;all::memchr:10;find_raw.0:3;find_raw.1:4;count_raw.0:3;count_raw.1:4;oracle::count:40], 3,
    matrix::top::<12>());
#[cfg(any(vcfg_x86none, vcfg_x86alloc, vcfg_x86avx2))]
inst!(mx_top_34, [props=C09 xprops=C14 tier=thorough cfg=x86none+x86alloc+x86avx2 t=1800 role=config-matrix-bytes uw=byte_by_byte:34;all::memchr::One::count_raw.0:67;all::memchr:10;find_raw.0:3;find_raw.1:4;count_raw.0:3;count_raw.1:4;oracle::count:40], 3,
    matrix::top::<34>());
#[cfg(any(vcfg_x86none, vcfg_x86alloc, vcfg_x86avx2))]
inst!(mx_sub_n2, [props=C09 xprops=C14 tier=thorough cfg=x86none+x86alloc+x86avx2 t=1800 role=config-matrix-substring uw=@RK;@TWNEW;@TWOFF;with_ranker:6;oracle:6;@PP32], 3,
    matrix::substring::<2, 8>(0, 8));
