//! C06 (byte-search iterators), C07 (count from a partially consumed
//! iterator), C08 (substring iterators), C16 (reuse / clone / own).

use crate::oracle::*;
use crate::place::{place, Buf};

#[inline(always)]
fn pred(which: u8, n1: u8, n2: u8, n3: u8) -> impl Fn(u8) -> bool {
    move |b| b == n1 || (which >= 2 && b == n2) || (which >= 3 && b == n3)
}

/// Checks one `next()` / `next_back()` step from the window `[s, e)`:
/// returns the min (resp. max) matching index of the window and shrinks the
/// window to `[i+1, e)` (resp. `[s, i)`); `None` leaves the window unchanged.
#[inline(always)]
pub fn check_step(
    h: &[u8],
    s: usize,
    e: usize,
    back: bool,
    r: Option<usize>,
    after: (usize, usize),
    p: impl Fn(u8) -> bool,
) {
    #[cfg(kani)]
    let j: usize = kani::any();
    #[cfg(not(kani))]
    let j: usize = 0;
    match r {
        Some(i) => {
            assert!(i >= s && i < e, "oracle: yielded position outside the remaining window");
            assert!(p(h[i]), "oracle: yielded position is not a match");
            if back {
                if j > i && j < e {
                    assert!(!p(h[j]), "oracle: next_back skipped a later match");
                }
                assert!(after == (s, i), "oracle: window after next_back is not [s, i)");
            } else {
                if j >= s && j < i {
                    assert!(!p(h[j]), "oracle: next skipped an earlier match");
                }
                assert!(after == (i + 1, e), "oracle: window after next is not [i+1, e)");
            }
        }
        None => {
            if j >= s && j < e {
                assert!(!p(h[j]), "oracle: None but a match remains in the window");
            }
            assert!(after == (s, e), "oracle: window changed although None was returned");
        }
    }
}

#[cfg(kani)]
pub mod bytes {
    use super::*;

    /// One step of `Memchr/Memchr2/Memchr3` (top-level iterators, through the
    /// dispatcher) from an arbitrary window of a haystack of concrete length.
    #[cfg(any(vcfg_x86std, vcfg_x86none, vcfg_x86alloc, vcfg_x86avx2, vcfg_x86rel))]
    pub fn top_step<const LEN: usize>(which: u8, mode_sym: bool) {
        let hb: [u8; LEN] = kani::any();
        let h = place(&hb[..]);
        let (n1, n2, n3): (u8, u8, u8) = (kani::any(), kani::any(), kani::any());
        let (s, e, back): (usize, usize, bool) = (kani::any(), kani::any(), kani::any());
        kani::assume(s <= e && e <= LEN);
        if mode_sym {
            let sse2: bool = kani::any();
            let avx2: bool = kani::any();
            kani::assume(!avx2 || sse2);
            memchr::verif::force_sse2(Some(sse2));
            memchr::verif::force_avx2(Some(avx2));
        } else {
            crate::substr::force(1);
        }
        let p = pred(which, n1, n2, n3);
        // size_hint must bracket the number of matches still to come (the
        // property does not fix the exact values)
        let remaining = crate::oracle::count(&h[s..e], &p);
        let hint_ok = |lo: usize, hi: Option<usize>| {
            assert!(lo <= remaining, "oracle: size_hint lower bound above the matches still to come");
            assert!(hi.map_or(true, |x| x >= remaining), "oracle: size_hint upper bound below the matches still to come");
        };
        match which {
            1 => {
                let mut it = memchr::Memchr::verif_with_window(n1, h, s, e);
                let (lo, hi) = it.size_hint();
                hint_ok(lo, hi);
                let r = if back { it.next_back() } else { it.next() };
                check_step(h, s, e, back, r, it.verif_window(), p);
            }
            2 => {
                let mut it = memchr::Memchr2::verif_with_window(n1, n2, h, s, e);
                let (lo, hi) = it.size_hint();
                hint_ok(lo, hi);
                let r = if back { it.next_back() } else { it.next() };
                check_step(h, s, e, back, r, it.verif_window(), p);
            }
            _ => {
                let mut it = memchr::Memchr3::verif_with_window(n1, n2, n3, h, s, e);
                let (lo, hi) = it.size_hint();
                hint_ok(lo, hi);
                let r = if back { it.next_back() } else { it.next() };
                check_step(h, s, e, back, r, it.verif_window(), p);
            }
        }
        kani::cover!(back && s > 0 && e < LEN, "next_back from an inner window");
        kani::cover!(!back && s > 0 && e < LEN, "next from an inner window");
        kani::cover!(s == e, "empty window");
    }

    /// First next() and first next_back() of fresh top-level iterators through
    /// the x86 dispatcher with a symbolic CPU (concrete length: cheap).
    #[cfg(any(vcfg_x86std, vcfg_x86none, vcfg_x86alloc, vcfg_x86avx2, vcfg_x86rel))]
    pub fn top_first<const LEN: usize>() {
        let hb: [u8; LEN] = kani::any();
        let h = place(&hb[..]);
        let (n1, n2, n3): (u8, u8, u8) = (kani::any(), kani::any(), kani::any());
        let sse2: bool = kani::any();
        let avx2: bool = kani::any();
        kani::assume(!avx2 || sse2);
        memchr::verif::force_sse2(Some(sse2));
        memchr::verif::force_avx2(Some(avx2));
        let mut it = memchr::memchr_iter(n1, h);
        let a = it.next();
        check_first(h, a, |b| b == n1);
        let b = it.next_back();
        let lo = match a {
            Some(i) => i + 1,
            None => LEN,
        };
        check_last(&h[lo..], b.map(|i| i - lo), |x| x == n1);
        let mut it3 = memchr::memchr3_iter(n1, n2, n3, h);
        let c = it3.next_back();
        check_last(h, c, |x| x == n1 || x == n2 || x == n3);
        let mut it2 = memchr::memchr2_iter(n1, n2, h);
        let d = it2.next();
        check_first(h, d, |x| x == n1 || x == n2);
        kani::cover!(a.is_some() && b.is_some(), "front and back matches");
        kani::cover!(!sse2, "fallback");
        kani::cover!(avx2, "AVX2");
    }

    /// Base case: a fresh iterator has window (0, len).
    pub fn top_base<const LEN: usize>() {
        let hb: [u8; LEN] = kani::any();
        let (n1, n2, n3): (u8, u8, u8) = (kani::any(), kani::any(), kani::any());
        let len: usize = kani::any();
        kani::assume(len <= LEN);
        let h = &hb[..len];
        assert!(memchr::Memchr::new(n1, h).verif_window() == (0, len), "oracle: fresh Memchr window");
        assert!(memchr::memchr_iter(n1, h).verif_window() == (0, len), "oracle: fresh memchr_iter window");
        assert!(memchr::Memchr2::new(n1, n2, h).verif_window() == (0, len), "oracle: fresh Memchr2 window");
        assert!(memchr::memchr2_iter(n1, n2, h).verif_window() == (0, len), "oracle: fresh memchr2_iter window");
        assert!(memchr::Memchr3::new(n1, n2, n3, h).verif_window() == (0, len), "oracle: fresh Memchr3 window");
        assert!(memchr::memchr3_iter(n1, n2, n3, h).verif_window() == (0, len), "oracle: fresh memchr3_iter window");
        let one = memchr::arch::all::memchr::One::new(n1);
        assert!(one.iter(h).verif_window() == (0, len), "oracle: fresh OneIter window");
        let two = memchr::arch::all::memchr::Two::new(n1, n2);
        assert!(two.iter(h).verif_window() == (0, len), "oracle: fresh TwoIter window");
        let three = memchr::arch::all::memchr::Three::new(n1, n2, n3);
        assert!(three.iter(h).verif_window() == (0, len), "oracle: fresh ThreeIter window");
        kani::cover!(len == LEN, "max length");
    }

    /// One step of the SWAR searchers' iterators from an arbitrary window,
    /// symbolic length and alignment.
    pub fn swar_step<const CAP: usize>(which: u8, max: usize) {
        use memchr::arch::all::memchr::{One, Three, Two};
        let (buf, off, len) = crate::bytesearch::sym_window::<CAP>(0, max, 8);
        let h = place(&buf.0[off..off + len]);
        let (n1, n2, n3): (u8, u8, u8) = (kani::any(), kani::any(), kani::any());
        let (s, e, back): (usize, usize, bool) = (kani::any(), kani::any(), kani::any());
        kani::assume(s <= e && e <= len);
        let p = pred(which, n1, n2, n3);
        match which {
            1 => {
                let f = One::new(n1);
                let mut it = f.verif_iter_with_window(h, s, e);
                let (lo, hi) = it.size_hint();
                let remaining = crate::oracle::count(&h[s..e], &p);
                assert!(lo <= remaining, "oracle: size_hint lower bound above the matches still to come");
                assert!(hi.map_or(true, |x| x >= remaining), "oracle: size_hint upper bound below the matches still to come");
                let r = if back { it.next_back() } else { it.next() };
                check_step(h, s, e, back, r, it.verif_window(), p);
            }
            2 => {
                let f = Two::new(n1, n2);
                let mut it = f.verif_iter_with_window(h, s, e);
                let (lo, hi) = it.size_hint();
                let remaining = crate::oracle::count(&h[s..e], &p);
                assert!(lo <= remaining, "oracle: size_hint lower bound above the matches still to come");
                assert!(hi.map_or(true, |x| x >= remaining), "oracle: size_hint upper bound below the matches still to come");
                let r = if back { it.next_back() } else { it.next() };
                check_step(h, s, e, back, r, it.verif_window(), p);
            }
            _ => {
                let f = Three::new(n1, n2, n3);
                let mut it = f.verif_iter_with_window(h, s, e);
                let (lo, hi) = it.size_hint();
                let remaining = crate::oracle::count(&h[s..e], &p);
                assert!(lo <= remaining, "oracle: size_hint lower bound above the matches still to come");
                assert!(hi.map_or(true, |x| x >= remaining), "oracle: size_hint upper bound below the matches still to come");
                let r = if back { it.next_back() } else { it.next() };
                check_step(h, s, e, back, r, it.verif_window(), p);
            }
        }
        kani::cover!(back && s > 0 && e < len && e - s > 9, "next_back from an inner window");
        kani::cover!(!back && s > 0 && e < len && e - s > 9, "next from an inner window");
    }

    /// Hook-free cross-check: every sequence of K next/next_back calls on a
    /// fresh iterator agrees with a two-pointer naive model. `kind`:
    /// 0 = top-level Memchr (SSE2 forced), 1 = SWAR OneIter, 2 = sse2 OneIter,
    /// 3 = top-level Memchr3, 4 = avx2 TwoIter.
    pub fn sequence<const LEN: usize, const K: usize>(kind: u8) {
        let hb: [u8; LEN] = kani::any();
        let h = place(&hb[..]);
        let (n1, n2, n3): (u8, u8, u8) = (kani::any(), kani::any(), kani::any());
        let which = match kind {
            3 => 3,
            4 => 2,
            _ => 1,
        };
        let p = pred(which, n1, n2, n3);
        crate::substr::force(if kind == 4 { 2 } else { 1 });
        let dirs: [bool; K] = kani::any();
        // naive model: window [s, e)
        let mut s = 0usize;
        let mut e = LEN;
        macro_rules! drive {
            ($it:expr) => {{
                let mut it = $it;
                let mut k = 0;
                while k < K {
                    // size_hint brackets the number of remaining matches
                    let remaining = crate::oracle::count(&h[s..e], &p);
                    let (lo, hi) = it.size_hint();
                    assert!(lo <= remaining, "oracle: size_hint lower bound above the remaining matches");
                    assert!(hi.map_or(true, |x| x >= remaining), "oracle: size_hint upper bound below the remaining matches");
                    let got = if dirs[k] { it.next_back() } else { it.next() };
                    // model
                    let mut want = None;
                    if dirs[k] {
                        let mut i = e;
                        while i > s {
                            i -= 1;
                            if p(h[i]) {
                                want = Some(i);
                                break;
                            }
                        }
                        if let Some(i) = want {
                            e = i;
                        }
                    } else {
                        let mut i = s;
                        while i < e {
                            if p(h[i]) {
                                want = Some(i);
                                break;
                            }
                            i += 1;
                        }
                        if let Some(i) = want {
                            s = i + 1;
                        }
                    }
                    assert!(got == want, "oracle: iterator disagrees with the two-pointer model");
                    k += 1;
                }
            }};
        }
        match kind {
            0 => drive!(memchr::memchr_iter(n1, h)),
            1 => {
                let f = memchr::arch::all::memchr::One::new(n1);
                drive!(f.iter(h))
            }
            #[cfg(any(vcfg_x86std, vcfg_x86none, vcfg_x86alloc, vcfg_x86avx2, vcfg_x86rel))]
            2 => {
                let f = memchr::arch::x86_64::sse2::memchr::One::new(n1).unwrap();
                drive!(f.iter(h))
            }
            3 => drive!(memchr::memchr3_iter(n1, n2, n3, h)),
            #[cfg(any(vcfg_x86std, vcfg_x86none, vcfg_x86alloc, vcfg_x86avx2, vcfg_x86rel))]
            4 => {
                let f = memchr::arch::x86_64::avx2::memchr::Two::new(n1, n2).unwrap();
                drive!(f.iter(h))
            }
            _ => {}
        }
        kani::cover!(s >= e, "ends met");
        if K >= 2 {
            kani::cover!(dirs[0] && !dirs[1], "back then front");
        }
    }

    /// C07: count() on an iterator installed at an arbitrary window.
    /// kind: 0 = top-level Memchr (dispatcher, detection symbolic),
    /// 1 = SWAR OneIter.
    pub fn count_from_window<const LEN: usize>(kind: u8) {
        let hb: [u8; LEN] = kani::any();
        let h = place(&hb[..]);
        let n1: u8 = kani::any();
        let (s, e): (usize, usize) = (kani::any(), kani::any());
        kani::assume(s <= e && e <= LEN);
        let want = crate::oracle::count(&h[s..e], |b| b == n1);
        let got = match kind {
            0 => {
                let sse2: bool = kani::any();
                let avx2: bool = kani::any();
                kani::assume(!avx2 || sse2);
                memchr::verif::force_sse2(Some(sse2));
                memchr::verif::force_avx2(Some(avx2));
                memchr::Memchr::verif_with_window(n1, h, s, e).count()
            }
            _ => {
                let f = memchr::arch::all::memchr::One::new(n1);
                f.verif_iter_with_window(h, s, e).count()
            }
        };
        assert!(got == want, "oracle: count() differs from the matches left in the window");
        kani::cover!(s > 0 && e < LEN && got > 1, "inner window with several matches");
        kani::cover!(s > 0 && want == 0 && h[0] == n1, "a match before the window is not counted");
    }

    /// C07 without hooks: advance with next()/next_back() then count().
    pub fn count_after_advance<const LEN: usize>() {
        let hb: [u8; LEN] = kani::any();
        let h = place(&hb[..]);
        let n1: u8 = kani::any();
        crate::substr::force(1);
        let mut it = memchr::memchr_iter(n1, h);
        let a = it.next();
        let b = it.next_back();
        let lo = match a {
            Some(i) => i + 1,
            None => 0,
        };
        let hi = match b {
            Some(i) => i,
            None => LEN,
        };
        let want = if a.is_none() { 0 } else { crate::oracle::count(&h[lo..hi], |x| x == n1) };
        let got = it.count();
        assert!(got == want, "oracle: count() after next/next_back differs from the matches not yet yielded");
        kani::cover!(a.is_some() && b.is_some() && got > 0, "advanced from both ends, matches left");
    }
}

// dispatcher-backed iterators: concrete lengths (function-pointer fan-out)
#[cfg(any(vcfg_x86std, vcfg_x86none, vcfg_x86alloc, vcfg_x86avx2, vcfg_x86rel))]
inst!(it_top1_step_10, [props=C06 xprops=C14+C05 tier=thorough cfg=x86std t=1500 role=memchr-iter-step uw=oracle::count:12;@MEMCHR], 3, bytes::top_step::<10>(1, true));
#[cfg(any(vcfg_x86std, vcfg_x86none, vcfg_x86alloc, vcfg_x86avx2, vcfg_x86rel))]
inst!(it_top2_step_18, [props=C06 xprops=C05+C14 tier=manual cfg=x86std t=1500 role=memchr2-iter-step uw=oracle::count:20;@MEMCHR], 3, bytes::top_step::<18>(2, true));
#[cfg(any(vcfg_x86std, vcfg_x86none, vcfg_x86alloc, vcfg_x86avx2, vcfg_x86rel))]
inst!(it_top3_step_18, [props=C06 xprops=C05+C14 tier=manual cfg=x86std t=1500 role=memchr3-iter-step uw=oracle::count:20;@MEMCHR], 3, bytes::top_step::<18>(3, true));
#[cfg(any(vcfg_x86std, vcfg_x86none, vcfg_x86alloc, vcfg_x86avx2, vcfg_x86rel))]
inst!(it_top1_step_40, [props=C06 xprops=C05+C14 tier=manual cfg=x86std t=3600 role=memchr-iter-step uw=oracle::count:42;@MEMCHR], 3, bytes::top_step::<40>(1, true));
inst!(it_top_step_generic_24, [props=C06 xprops=C05+C14 tier=quick cfg=generic t=1500 role=memchr-iter-step uw=oracle::count:26;@MEMCHR], 3, bytes_generic::top_step::<24>(3));
inst!(it_top_base, [props=C06 xprops=C14 tier=quick cfg=x86std+generic t=600 role=iter-base-case], 3, bytes::top_base::<12>());
inst!(it_swar1_step, [props=C06+C14 xprops=C05 tier=quick cfg=x86std t=1500 role=swar-iter-step uw=oracle::count:26;One::find_raw.0:4;One::rfind_raw.0:4;byte_by_byte:18], 18, bytes::swar_step::<31>(1, 24));
inst!(it_swar3_step, [props=C06 xprops=C05+C14 tier=quick cfg=x86std t=1500 role=swar-iter-step uw=oracle::count:26;Three::find_raw.0:4;Three::rfind_raw.0:4;byte_by_byte:10], 10, bytes::swar_step::<31>(3, 24));
inst!(it_swar2_step, [props=C06 xprops=C05+C14 tier=thorough cfg=x86std t=1500 role=swar-iter-step uw=oracle::count:26;Two::find_raw.0:4;Two::rfind_raw.0:4;byte_by_byte:10], 10, bytes::swar_step::<31>(2, 24));
inst!(it_seq_top_8x3, [props=C06 xprops=C14 tier=manual cfg=x86std t=1500 role=iter-call-sequences uw=@MEMCHR;sequence:10;oracle::count:10], 3, bytes::sequence::<8, 3>(0));
inst!(it_seq_top_10x4, [props=C06 xprops=C14 tier=manual cfg=x86std t=5400 role=iter-call-sequences uw=@MEMCHR;sequence:12;oracle::count:12], 3, bytes::sequence::<10, 4>(0));
inst!(it_seq_swar_8x3, [props=C06 xprops=C14 tier=thorough cfg=x86std t=1500 role=iter-call-sequences uw=@MEMCHR;sequence:10;oracle::count:10], 3, bytes::sequence::<8, 3>(1));
inst!(it_seq_swar_10x4, [props=C06 xprops=C14 tier=manual cfg=x86std t=5400 role=iter-call-sequences uw=@MEMCHR;sequence:12;oracle::count:12], 3, bytes::sequence::<10, 4>(1));
inst!(it_seq_sse2_18x2, [props=C06 xprops=C14 tier=thorough cfg=x86std t=1500 role=iter-call-sequences uw=@MEMCHR;sequence:20;oracle::count:20], 3, bytes::sequence::<18, 2>(2));
inst!(it_seq_sse2_18x3, [props=C06 xprops=C14 tier=manual cfg=x86std t=5400 role=iter-call-sequences uw=@MEMCHR;sequence:20;oracle::count:20], 3, bytes::sequence::<18, 3>(2));
inst!(it_seq_top3_10x4, [props=C06 xprops=C14 tier=manual cfg=x86std t=1500 role=iter-call-sequences uw=@MEMCHR;sequence:12;oracle::count:12], 3, bytes::sequence::<10, 4>(3));
inst!(it_seq_avx2_34x3, [props=C06 xprops=C14 tier=manual cfg=x86std t=3600 role=iter-call-sequences uw=@MEMCHR;sequence:36;oracle::count:36], 3, bytes::sequence::<34, 3>(4));
inst!(cnt_window_top_14, [props=C07 xprops=C05+C14 tier=quick cfg=x86std t=1500 role=count-from-window uw=oracle::count:22;all::memchr::One::count_raw.0:22;@MEMCHR], 3, bytes::count_from_window::<14>(0));
inst!(cnt_window_top_40, [props=C07 xprops=C05+C14 tier=manual cfg=x86std t=3600 role=count-from-window uw=oracle::count:42;all::memchr::One::count_raw.0:42;@MEMCHR], 3, bytes::count_from_window::<40>(0));
inst!(cnt_window_swar_20, [props=C07 xprops=C05+C14 tier=quick cfg=x86std+generic t=1500 role=count-from-window uw=oracle::count:22;all::memchr::One::count_raw.0:22;@MEMCHR], 3, bytes::count_from_window::<20>(1));
inst!(cnt_after_advance_12, [props=C07 xprops=C14 tier=quick cfg=x86std t=1500 role=count-after-advance uw=oracle::count:20;all::memchr::One::count_raw.0:20;@MEMCHR], 3, bytes::count_after_advance::<12>());

/// The same step harness for builds without the x86 dispatcher (pseudo-targets).
#[cfg(kani)]
pub mod bytes_generic {
    use super::*;

    pub fn top_step<const LEN: usize>(which: u8) {
        let hb: [u8; LEN] = kani::any();
        let h = place(&hb[..]);
        let (n1, n2, n3): (u8, u8, u8) = (kani::any(), kani::any(), kani::any());
        let (s, e, back): (usize, usize, bool) = (kani::any(), kani::any(), kani::any());
        kani::assume(s <= e && e <= LEN);
        let p = pred(which, n1, n2, n3);
        match which {
            1 => {
                let mut it = memchr::Memchr::verif_with_window(n1, h, s, e);
                let r = if back { it.next_back() } else { it.next() };
                check_step(h, s, e, back, r, it.verif_window(), p);
            }
            2 => {
                let mut it = memchr::Memchr2::verif_with_window(n1, n2, h, s, e);
                let r = if back { it.next_back() } else { it.next() };
                check_step(h, s, e, back, r, it.verif_window(), p);
            }
            _ => {
                let mut it = memchr::Memchr3::verif_with_window(n1, n2, n3, h, s, e);
                let r = if back { it.next_back() } else { it.next() };
                check_step(h, s, e, back, r, it.verif_window(), p);
            }
        }
        kani::cover!(back && s > 0 && e < LEN, "next_back from an inner window");
        kani::cover!(!back && s > 0 && e < LEN, "next from an inner window");
    }
}

// quick-tier sizes (measured: the dispatcher's function-pointer fan-out makes
// every call through the top-level functions ~7x as expensive as a direct call)
#[cfg(any(vcfg_x86std, vcfg_x86none, vcfg_x86alloc, vcfg_x86avx2, vcfg_x86rel))]
inst!(it_top1_step_6, [props=C06 xprops=C14+C05 tier=thorough cfg=x86std t=1500 role=memchr-iter-step uw=oracle::count:8;@MEMCHR], 3, bytes::top_step::<6>(1, true));
inst!(it_seq_swar_6x2, [props=C06 xprops=C14 tier=quick cfg=x86std t=1500 role=iter-call-sequences uw=@MEMCHR;sequence:8;oracle::count:8], 3, bytes::sequence::<6, 2>(1));
inst!(it_seq_top_generic_6x3, [props=C06 xprops=C14 tier=quick cfg=generic t=1500 role=iter-call-sequences uw=@MEMCHR;sequence:10;oracle::count:10], 3, bytes::sequence::<6, 3>(0));

#[cfg(any(vcfg_x86std, vcfg_x86none, vcfg_x86alloc, vcfg_x86avx2, vcfg_x86rel))]
inst!(it_top_first_x86_9, [props=C06 xprops=C05+C14 tier=quick cfg=x86std t=1500 role=memchr-iter-dispatcher uw=@MEMCHR], 3, bytes::top_first::<9>());
