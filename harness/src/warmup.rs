//! A trivial harness the driver runs first to build the dependency graph once
//! per configuration (the resulting target directory is then copied to the
//! workers).
inst!(warmup, [props=none tier=quick cfg=all t=300 role=build], 2, {
    let x: u8 = kani::any();
    assert!(x as u16 <= 255);
});
