//! (L) lane contracts: every `Vector` / `MoveMask` operation of a production
//! vector type agrees with the lane-wise definition, for all byte contents.
//! This ties `__m128i`, `__m256i` (and, in the pseudo-targets, `uint8x16_t`
//! with `NeonMoveMask`, and `v128`) to the scaled-down vector with which the
//! generic algorithms are explored exhaustively.

use memchr::verif::{LaneReport, MaskView};

/// Lane-wise specification of a mask with `B` lanes given as a bitmap.
fn spec_view(bits: u32) -> MaskView {
    MaskView {
        non_zero: bits != 0,
        count: bits.count_ones() as usize,
        first: if bits != 0 { bits.trailing_zeros() as usize } else { 0 },
        last: if bits != 0 { 31 - bits.leading_zeros() as usize } else { 0 },
        lanes: bits,
    }
}

fn check_view(got: MaskView, bits: u32) {
    let want = spec_view(bits);
    assert!(got.non_zero == want.non_zero, "oracle: has_non_zero differs from the lane-wise definition");
    assert!(got.count == want.count, "oracle: count_ones differs from the lane-wise definition");
    assert!(got.lanes == want.lanes, "oracle: lanes reported through first_offset/clear_least_significant_bit differ");
    if want.non_zero {
        assert!(got.first == want.first, "oracle: first_offset differs from the lane-wise definition");
        assert!(got.last == want.last, "oracle: last_offset differs from the lane-wise definition");
    }
}

#[cfg(kani)]
fn eq_bits<const B: usize>(a: &[u8; B], b: &[u8; B]) -> u32 {
    let mut m = 0u32;
    let mut i = 0;
    while i < B {
        if a[i] == b[i] {
            m |= 1 << i;
        }
        i += 1;
    }
    m
}

#[cfg(kani)]
fn eq_byte_bits<const B: usize>(a: &[u8; B], x: u8) -> u32 {
    let mut m = 0u32;
    let mut i = 0;
    while i < B {
        if a[i] == x {
            m |= 1 << i;
        }
        i += 1;
    }
    m
}

#[cfg(kani)]
fn check_report<const B: usize>(r: LaneReport, a: &[u8; B], b: &[u8; B], c: &[u8; B], x: u8, n: usize) {
    let ab = eq_bits(a, b);
    let ac = eq_bits(a, c);
    let ax = eq_byte_bits(a, x);
    check_view(r.eq_ab, ab);
    check_view(r.eq_ax, ax);
    check_view(r.vec_or, ab | ac);
    check_view(r.vec_and, ab & ac);
    check_view(r.mask_or, ab | ac);
    check_view(r.mask_and, ab & ac);
    let keep: u32 = if n >= 32 { 0 } else { !((1u32 << n) - 1) };
    // `all_zeros_except_least_significant(n)` is only used to *skip* lanes
    // that were already examined (packed-pair overlap): what callers rely on
    // is that no lane >= n is lost and no lane is invented. Lanes < n may
    // survive (NEON's nibble mask keeps some of them; harmless, they are
    // re-verified), so exact equality is not demanded here.
    assert!(r.masked.lanes & !ab == 0, "oracle: masking invented a lane");
    assert!(r.masked.lanes & (ab & keep) == (ab & keep), "oracle: masking lost a lane at or above n");
    assert!(r.masked.non_zero == (r.masked.lanes != 0), "oracle: masked has_non_zero inconsistent with its lanes");
    assert!(r.masked.count == r.masked.lanes.count_ones() as usize, "oracle: masked count_ones inconsistent with its lanes");
    if r.masked.non_zero {
        assert!(r.masked.first == r.masked.lanes.trailing_zeros() as usize, "oracle: masked first_offset inconsistent with its lanes");
    }
    assert!(r.will_have_non_zero == (ab != 0), "oracle: movemask_will_have_non_zero differs from movemask().has_non_zero()");
    assert!(r.or_will_have_non_zero == ((ab | ac) != 0), "oracle: movemask_will_have_non_zero (or) differs");
    kani::cover!(ab == (if B == 32 { u32::MAX } else { (1u32 << B) - 1 }), "all lanes equal");
    kani::cover!(ab == 0 && ac != 0, "only the second comparison matches");
    kani::cover!(ab.count_ones() == 2 && n > 0 && (ab & keep) != ab, "a lane below n exists");
}

/// which: 0 = SmallVec<4> (sanity of the specification itself),
/// 1 = __m128i, 2 = __m256i, 3 = uint8x16_t (pseudo-target), 4 = v128.
#[cfg(kani)]
pub fn contract<const B: usize>(which: u8) {
    let a: [u8; B] = kani::any();
    let b: [u8; B] = kani::any();
    let c: [u8; B] = kani::any();
    let x: u8 = kani::any();
    let n: usize = kani::any();
    kani::assume(n < B);
    let r = unsafe {
        match which {
            0 => memchr::verif::lane_report_small::<B>(a.as_ptr(), b.as_ptr(), c.as_ptr(), x, n),
            #[cfg(any(vcfg_x86std, vcfg_x86none, vcfg_x86alloc, vcfg_x86avx2, vcfg_x86rel))]
            1 => memchr::verif::lane_report_sse2(a.as_ptr(), b.as_ptr(), c.as_ptr(), x, n),
            #[cfg(any(vcfg_x86std, vcfg_x86none, vcfg_x86alloc, vcfg_x86avx2, vcfg_x86rel))]
            2 => memchr::verif::lane_report_avx2(a.as_ptr(), b.as_ptr(), c.as_ptr(), x, n),
            #[cfg(vcfg_neon)]
            3 => memchr::verif::lane_report_neon(a.as_ptr(), b.as_ptr(), c.as_ptr(), x, n),
            #[cfg(vcfg_simd128)]
            4 => memchr::verif::lane_report_simd128(a.as_ptr(), b.as_ptr(), c.as_ptr(), x, n),
            _ => return,
        }
    };
    check_report::<B>(r, &a, &b, &c, x, n);
}

/// The aligned load reads the same bytes as the unaligned one (the data is
/// placed at a 64-byte aligned address).
#[cfg(all(kani, any(vcfg_x86std, vcfg_x86none, vcfg_x86alloc, vcfg_x86avx2, vcfg_x86rel)))]
pub fn aligned_load<const B: usize>(which: u8) {
    let a = crate::place::Buf::<B>::any();
    let x: u8 = kani::any();
    let v = unsafe {
        if which == 1 {
            memchr::verif::aligned_eq_sse2(a.0.as_ptr(), x)
        } else {
            memchr::verif::aligned_eq_avx2(a.0.as_ptr(), x)
        }
    };
    check_view(v, eq_byte_bits(&a.0, x));
    kani::cover!(v.count == 3, "three lanes");
}

/// Witness that the alignment net is live: a deliberately misaligned
/// `load_aligned` must FAIL with the hook's message.
#[cfg(all(kani, any(vcfg_x86std, vcfg_x86none, vcfg_x86alloc, vcfg_x86avx2, vcfg_x86rel)))]
pub fn misaligned_witness(which: u8) {
    let a = crate::place::Buf::<80>::any();
    let off: usize = kani::any();
    kani::assume(off >= 1 && off < 16);
    let _ = unsafe {
        if which == 1 {
            memchr::verif::aligned_eq_sse2(a.0.as_ptr().add(off), 0)
        } else {
            memchr::verif::aligned_eq_avx2(a.0.as_ptr().add(off), 0)
        }
    };
}

inst!(lane_small4, [props=C01+C02+C07+C11 tier=quick cfg=x86std t=600 role=lane-contract-spec-sanity], 34, contract::<4>(0));
#[cfg(any(vcfg_x86std, vcfg_x86none, vcfg_x86alloc, vcfg_x86avx2, vcfg_x86rel))]
inst!(lane_sse2, [props=C01+C02+C07+C09+C11+C12+C06 tier=quick cfg=x86std t=900 role=lane-contract-sse2], 34, contract::<16>(1));
#[cfg(any(vcfg_x86std, vcfg_x86none, vcfg_x86alloc, vcfg_x86avx2, vcfg_x86rel))]
inst!(lane_avx2, [props=C01+C02+C07+C09+C11+C12+C06 tier=quick cfg=x86std+x86avx2 t=900 role=lane-contract-avx2], 34, contract::<32>(2));
#[cfg(vcfg_neon)]
inst!(lane_neon, [props=C01+C02+C07+C09+C11 tier=quick cfg=neon t=900 role=lane-contract-neon], 34, contract::<16>(3));
#[cfg(vcfg_simd128)]
inst!(lane_simd128, [props=C01+C02+C07+C09+C11 tier=quick cfg=simd128 t=900 role=lane-contract-simd128], 34, contract::<16>(4));
#[cfg(any(vcfg_x86std, vcfg_x86none, vcfg_x86alloc, vcfg_x86avx2, vcfg_x86rel))]
inst!(lane_aligned_sse2, [props=C01+C05 tier=quick cfg=x86std t=600 role=aligned-load-sse2], 34, aligned_load::<16>(1));
#[cfg(any(vcfg_x86std, vcfg_x86none, vcfg_x86alloc, vcfg_x86avx2, vcfg_x86rel))]
inst!(lane_aligned_avx2, [props=C01+C05 tier=quick cfg=x86std t=600 role=aligned-load-avx2], 34, aligned_load::<32>(2));
#[cfg(any(vcfg_x86std, vcfg_x86none, vcfg_x86alloc, vcfg_x86avx2, vcfg_x86rel))]
inst!(witness_misaligned_sse2, [props=C05 tier=quick cfg=x86std t=600 role=alignment-net-witness expect=failat:assert_aligned], 34, misaligned_witness(1));
#[cfg(any(vcfg_x86std, vcfg_x86none, vcfg_x86alloc, vcfg_x86avx2, vcfg_x86rel))]
inst!(witness_misaligned_avx2, [props=C05 tier=quick cfg=x86std t=600 role=alignment-net-witness expect=failat:assert_aligned], 34, misaligned_witness(2));
