//! Scratch experiments (not registered for any property).
use crate::bytesearch::*;
inst!(exp_avx2_one_28_36, [props=C99 tier=quick cfg=x86std t=1800 uw=find_raw.0:2;find_raw.1:3;byte_by_byte:2], 3,
    x86::find::<67>(1, 1, false, 28, 36, 32));
inst!(exp_avx2_three_28_36, [props=C99 tier=quick cfg=x86std t=1800 uw=find_raw.0:2;find_raw.1:3;byte_by_byte:2], 3,
    x86::find::<67>(1, 3, true, 28, 36, 32));
inst!(exp_sse2_one_lowunwind, [props=C99 tier=quick cfg=x86std t=1800 uw=find_raw.0:2;find_raw.1:4;byte_by_byte:17], 3,
    x86::find::<55>(0, 1, false, 0, 40, 16));
