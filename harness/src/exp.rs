//! Scratch experiments (not registered for any property).
