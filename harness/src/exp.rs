//! Scratch experiments (not registered for any property).
use crate::bytesearch::*;
inst!(exp_f_avx2_33, [props=C99 tier=quick cfg=x86std t=1800 uw=find_raw.0:2;find_raw.1:4;byte_by_byte:17], 17,
    x86::find_fixed::<33, 64>(1, 1, false, 32));
inst!(exp_f_avx2_70, [props=C99 tier=quick cfg=x86std t=1800 uw=find_raw.0:2;find_raw.1:4;byte_by_byte:17], 17,
    x86::find_fixed::<70, 101>(1, 3, false, 32));
inst!(exp_f_avx2_160, [props=C99 tier=quick cfg=x86std t=1800 uw=find_raw.0:3;find_raw.1:5;byte_by_byte:17], 17,
    x86::find_fixed::<160, 191>(1, 1, false, 32));
inst!(exp_f_sse2_40, [props=C99 tier=quick cfg=x86std t=1800 uw=find_raw.0:2;find_raw.1:4;byte_by_byte:17], 17,
    x86::find_fixed::<40, 55>(0, 3, false, 16));
inst!(exp_f_sse2_15, [props=C99 tier=quick cfg=x86std t=1800 uw=find_raw.0:2;find_raw.1:4;byte_by_byte:17], 17,
    x86::find_fixed::<15, 30>(0, 3, true, 16));
inst!(exp_f_sse2_80, [props=C99 tier=quick cfg=x86std t=1800 uw=find_raw.0:2;find_raw.1:5;byte_by_byte:17], 17,
    x86::find_fixed::<80, 95>(0, 1, true, 16));
inst!(exp_f_sse2_count_40, [props=C99 tier=quick cfg=x86std t=1800 uw=count_raw.0:2;count_raw.1:4;byte_by_byte:17], 42,
    x86::count_fixed::<40, 55>(0, 16));
inst!(exp_f_avx2_count_70, [props=C99 tier=quick cfg=x86std t=1800 uw=count_raw.0:2;count_raw.1:4;byte_by_byte:33], 72,
    x86::count_fixed::<70, 101>(1, 32));
