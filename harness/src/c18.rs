//! C18: is_equal / is_prefix / is_suffix / is_equal_raw.

use crate::place::{place, Buf};
use memchr::arch::all::{is_equal, is_equal_raw, is_prefix, is_suffix};

#[cfg(kani)]
fn two_slices<const CAP: usize>(max: usize) -> (Buf<CAP>, Buf<CAP>, usize, usize, usize, usize) {
    let a = Buf::<CAP>::any();
    let b = Buf::<CAP>::any();
    let (oa, ob, la, lb): (usize, usize, usize, usize) =
        (kani::any(), kani::any(), kani::any(), kani::any());
    kani::assume(oa < 8 && ob < 8 && la <= max && lb <= max);
    kani::assume(oa + la <= CAP && ob + lb <= CAP);
    (a, b, oa, ob, la, lb)
}

#[cfg(kani)]
pub fn sym_equal<const CAP: usize>(max: usize) {
    let (a, b, oa, ob, la, lb) = two_slices::<CAP>(max);
    let x = place(&a.0[oa..oa + la]);
    let y = place(&b.0[ob..ob + lb]);
    let j: usize = kani::any();
    let r = is_equal(x, y);
    if r {
        assert!(la == lb, "oracle: is_equal true for different lengths");
        if j < la {
            assert!(x[j] == y[j], "oracle: is_equal true but bytes differ");
        }
    } else if la == lb {
        // false for same-length operands: some byte must differ
        let mut all = true;
        let mut k = 0;
        while k < la {
            if x[k] != y[k] {
                all = false;
            }
            k += 1;
        }
        assert!(!all, "oracle: is_equal false for equal slices");
    }
    kani::cover!(r && la == max, "equal at max length");
    kani::cover!(!r && la == lb && la == max, "same length, different");
    kani::cover!(r && la == 7 && oa == 3 && ob == 5, "equal, odd tail, misaligned");
}

/// x = haystack, y = needle
#[cfg(kani)]
pub fn sym_prefix<const CAP: usize>(max: usize) {
    let (a, b, oa, ob, la, lb) = two_slices::<CAP>(max);
    let x = place(&a.0[oa..oa + la]);
    let y = place(&b.0[ob..ob + lb]);
    let j: usize = kani::any();
    let r = is_prefix(x, y);
    if r {
        assert!(lb <= la, "oracle: is_prefix true for longer needle");
        if j < lb {
            assert!(x[j] == y[j], "oracle: is_prefix true but bytes differ");
        }
    } else if lb <= la {
        let mut all = true;
        let mut k = 0;
        while k < lb {
            if x[k] != y[k] {
                all = false;
            }
            k += 1;
        }
        assert!(!all, "oracle: is_prefix false for a real prefix");
    }
    kani::cover!(r && lb == max && la == max, "prefix at max length");
    kani::cover!(r && lb + 3 == la && lb > 4, "proper prefix");
    kani::cover!(!r && lb > la, "needle longer than haystack");
}

#[cfg(kani)]
pub fn sym_suffix<const CAP: usize>(max: usize) {
    let (a, b, oa, ob, la, lb) = two_slices::<CAP>(max);
    let x = place(&a.0[oa..oa + la]);
    let y = place(&b.0[ob..ob + lb]);
    let j: usize = kani::any();
    let r = is_suffix(x, y);
    if r {
        assert!(lb <= la, "oracle: is_suffix true for longer needle");
        if j < lb {
            assert!(x[la - lb + j] == y[j], "oracle: is_suffix true but bytes differ");
        }
    } else if lb <= la {
        let mut all = true;
        let mut k = 0;
        while k < lb {
            if x[la - lb + k] != y[k] {
                all = false;
            }
            k += 1;
        }
        assert!(!all, "oracle: is_suffix false for a real suffix");
    }
    kani::cover!(r && lb + 3 == la && lb > 4, "proper suffix");
    kani::cover!(!r && lb > la, "needle longer than haystack");
}

/// Both operands are windows of ONE buffer (they may alias or overlap, in
/// particular start at the same address with different lengths).
#[cfg(kani)]
pub fn sym_alias<const CAP: usize>() {
    let a = Buf::<CAP>::any();
    let (oa, ob, la, lb): (usize, usize, usize, usize) =
        (kani::any(), kani::any(), kani::any(), kani::any());
    kani::assume(oa <= CAP && ob <= CAP && la <= CAP - oa && lb <= CAP - ob);
    let x = &a.0[oa..oa + la];
    let y = &a.0[ob..ob + lb];
    let j: usize = kani::any();
    let r = is_equal(x, y);
    if r {
        assert!(la == lb, "oracle: is_equal true for different lengths");
        if j < la {
            assert!(x[j] == y[j], "oracle: is_equal true but bytes differ");
        }
    } else if la == lb {
        assert!(oa != ob, "oracle: is_equal false for the very same slice");
    }
    let rp = is_prefix(x, y);
    if rp {
        assert!(lb <= la, "oracle: is_prefix true for longer needle");
        if j < lb {
            assert!(x[j] == y[j], "oracle: is_prefix true but bytes differ");
        }
    } else if oa == ob {
        assert!(lb > la, "oracle: is_prefix false for a prefix starting at the same address");
    }
    let rs = is_suffix(x, y);
    if rs {
        assert!(lb <= la, "oracle: is_suffix true for longer needle");
        if j < lb {
            assert!(x[la - lb + j] == y[j], "oracle: is_suffix true but bytes differ");
        }
    } else if oa + la == ob + lb {
        assert!(lb > la, "oracle: is_suffix false for a suffix ending at the same address");
    }
    kani::cover!(oa == ob && la != lb, "same start address, different lengths");
    kani::cover!(oa != ob && r && la > 2, "equal overlapping windows");
}

/// Exact-size operands (any read past either operand leaves its object).
#[cfg(kani)]
pub fn exact<const LA: usize, const LB: usize>() {
    let a: [u8; LA] = kani::any();
    let b: [u8; LB] = kani::any();
    let x = place(&a);
    let y = place(&b);
    let r = is_equal(x, y);
    let mut all = LA == LB;
    if all {
        let mut k = 0;
        while k < LA {
            if x[k] != y[k] {
                all = false;
            }
            k += 1;
        }
    }
    assert!(r == all, "oracle: is_equal differs from slice equality");
    let rp = is_prefix(x, y);
    let rs = is_suffix(x, y);
    if LB <= LA {
        let mut ap = true;
        let mut asf = true;
        let mut k = 0;
        while k < LB {
            if x[k] != y[k] {
                ap = false;
            }
            if x[LA - LB + k] != y[k] {
                asf = false;
            }
            k += 1;
        }
        assert!(rp == ap, "oracle: is_prefix differs from starts_with");
        assert!(rs == asf, "oracle: is_suffix differs from ends_with");
    } else {
        assert!(!rp && !rs, "oracle: prefix/suffix true for longer needle");
    }
    if LA == LB {
        kani::cover!(r, "equal");
    } else if LB <= LA {
        kani::cover!(rp, "proper prefix");
    } else {
        kani::cover!(!rp && !rs, "needle longer than haystack");
    }
}

/// is_equal_raw with symbolic n inside exact-size buffers.
#[cfg(kani)]
pub fn raw<const L: usize>() {
    let a: [u8; L] = kani::any();
    let b: [u8; L] = kani::any();
    let n: usize = kani::any();
    kani::assume(n <= L);
    // flush the n compared bytes against the END of each object
    let x = &a[L - n..];
    let y = &b[L - n..];
    let r = unsafe { is_equal_raw(x.as_ptr(), y.as_ptr(), n) };
    let mut all = true;
    let mut k = 0;
    while k < n {
        if x[k] != y[k] {
            all = false;
        }
        k += 1;
    }
    assert!(r == all, "oracle: is_equal_raw differs from byte-wise equality");
    kani::cover!(r && n == L, "equal at full length");
}

inst!(c18_is_equal, [props=C18+C05 xprops=C14 tier=quick cfg=x86std+generic t=900 role=is_equal], 34, sym_equal::<39>(32));
inst!(c18_is_prefix, [props=C18 xprops=C05+C14 tier=quick cfg=x86std t=900 role=is_prefix], 26, sym_prefix::<31>(24));
inst!(c18_is_suffix, [props=C18 xprops=C05+C14 tier=quick cfg=x86std t=900 role=is_suffix], 26, sym_suffix::<31>(24));
inst!(c18_alias_12, [props=C18 xprops=C14 tier=quick cfg=x86std t=900 role=aliasing-operands], 14, sym_alias::<12>());
inst!(c18_raw_19, [props=C18+C05+C14 tier=quick cfg=x86std t=900 role=is_equal_raw], 21, raw::<19>());
inst!(c18_exact_7_7, [props=C18+C05 tier=quick cfg=x86std t=600 role=exact-operands], 9, exact::<7, 7>());
inst!(c18_exact_6_3, [props=C18+C05 tier=quick cfg=x86std t=600 role=exact-operands], 9, exact::<6, 3>());
inst!(c18_exact_3_5, [props=C18+C05 tier=quick cfg=x86std t=600 role=exact-operands], 9, exact::<3, 5>());
inst!(c18_exact_0_0, [props=C18+C05 tier=quick cfg=x86std t=600 role=exact-operands], 3, exact::<0, 0>());

inst!(c18_is_equal_64, [props=C18 xprops=C05+C14 tier=thorough cfg=x86std t=1800 role=is_equal], 66, sym_equal::<71>(64));
inst!(c18_is_prefix_64, [props=C18 xprops=C05+C14 tier=thorough cfg=x86std t=1800 role=is_prefix], 66, sym_prefix::<71>(64));
inst!(c18_is_suffix_64, [props=C18 xprops=C05+C14 tier=thorough cfg=x86std t=1800 role=is_suffix], 66, sym_suffix::<71>(64));
inst!(c18_raw_67, [props=C18 xprops=C05+C14 tier=thorough cfg=x86std t=1800 role=is_equal_raw], 69, raw::<67>());
