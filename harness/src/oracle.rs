//! Loop-free oracles (a fresh symbolic witness index replaces the loop).

#[cfg(kani)]
fn any_usize() -> usize {
    kani::any()
}
#[cfg(not(kani))]
fn any_usize() -> usize {
    0
}

/// `r` is the first index in `h` satisfying `pred`, or `None` if none does.
#[inline(always)]
pub fn check_first(h: &[u8], r: Option<usize>, pred: impl Fn(u8) -> bool) {
    let j = any_usize();
    match r {
        Some(i) => {
            assert!(i < h.len(), "oracle: returned index out of range");
            assert!(pred(h[i]), "oracle: returned index is not a match");
            if j < i {
                assert!(!pred(h[j]), "oracle: an earlier match exists");
            }
        }
        None => {
            if j < h.len() {
                assert!(!pred(h[j]), "oracle: None but a match exists");
            }
        }
    }
}

/// `r` is the last index in `h` satisfying `pred`, or `None` if none does.
#[inline(always)]
pub fn check_last(h: &[u8], r: Option<usize>, pred: impl Fn(u8) -> bool) {
    let j = any_usize();
    match r {
        Some(i) => {
            assert!(i < h.len(), "oracle: returned index out of range");
            assert!(pred(h[i]), "oracle: returned index is not a match");
            if j > i && j < h.len() {
                assert!(!pred(h[j]), "oracle: a later match exists");
            }
        }
        None => {
            if j < h.len() {
                assert!(!pred(h[j]), "oracle: None but a match exists");
            }
        }
    }
}

/// Naive count.
#[inline(always)]
pub fn count(h: &[u8], pred: impl Fn(u8) -> bool) -> usize {
    let mut c = 0;
    let mut i = 0;
    while i < h.len() {
        if pred(h[i]) {
            c += 1;
        }
        i += 1;
    }
    c
}

/// Does `n` occur in `h` at offset `at`? (`at + n.len() <= h.len()` required)
#[inline(always)]
pub fn is_match(h: &[u8], n: &[u8], at: usize) -> bool {
    let mut k = 0;
    while k < n.len() {
        if h[at + k] != n[k] {
            return false;
        }
        k += 1;
    }
    true
}

/// `r` is the leftmost occurrence of `n` in `h`.
#[inline(always)]
pub fn check_leftmost(h: &[u8], n: &[u8], r: Option<usize>) {
    let j = any_usize();
    match r {
        Some(i) => {
            assert!(
                i <= h.len() && n.len() <= h.len() - i,
                "oracle: returned offset out of range"
            );
            assert!(is_match(h, n, i), "oracle: returned offset is not an occurrence");
            if j < i {
                assert!(!is_match(h, n, j), "oracle: an earlier occurrence exists");
            }
        }
        None => {
            if n.len() <= h.len() && j <= h.len() - n.len() {
                assert!(!is_match(h, n, j), "oracle: None but the needle occurs");
            }
        }
    }
}

/// `r` is the rightmost occurrence of `n` in `h`.
#[inline(always)]
pub fn check_rightmost(h: &[u8], n: &[u8], r: Option<usize>) {
    let j = any_usize();
    match r {
        Some(i) => {
            assert!(
                i <= h.len() && n.len() <= h.len() - i,
                "oracle: returned offset out of range"
            );
            assert!(is_match(h, n, i), "oracle: returned offset is not an occurrence");
            if j > i && n.len() <= h.len() && j <= h.len() - n.len() {
                assert!(!is_match(h, n, j), "oracle: a later occurrence exists");
            }
        }
        None => {
            if n.len() <= h.len() && j <= h.len() - n.len() {
                assert!(!is_match(h, n, j), "oracle: None but the needle occurs");
            }
        }
    }
}

/// Naive leftmost occurrence at or after `from` (loop; for iterators).
#[inline(always)]
pub fn naive_find_from(h: &[u8], n: &[u8], from: usize) -> Option<usize> {
    if n.len() > h.len() {
        return None;
    }
    let mut i = from;
    while i <= h.len() - n.len() {
        if is_match(h, n, i) {
            return Some(i);
        }
        i += 1;
    }
    None
}

/// Naive rightmost occurrence ending at or before `upto` (loop).
#[inline(always)]
pub fn naive_rfind_upto(h: &[u8], n: &[u8], upto: usize) -> Option<usize> {
    if n.len() > upto {
        return None;
    }
    let mut i = upto - n.len() + 1;
    while i > 0 {
        i -= 1;
        if is_match(h, n, i) {
            return Some(i);
        }
    }
    None
}
