//! Memory placement of haystacks and needles.
//!
//! Under Kani the buffers are plain stack arrays (exact size, no padding);
//! CBMC's pointer-to-integer cast yields `object-id || offset`, so the low
//! bits of `ptr as usize` are the offset inside the allocation and alignment
//! is varied by slicing at a (symbolic or constant) offset. A buffer of
//! exactly `OFF + LEN` bytes makes any read past the end leave the object.
//!
//! Under native replay (`--cfg verif_replay`, used by `cargo kani playback`)
//! `place` copies the bytes into a fresh mapping so that the slice ends
//! exactly at (VERIF_PLACE=right, default) or starts exactly at
//! (VERIF_PLACE=left) a PROT_NONE page, keeping the address modulo 64 that
//! the Kani run used when possible. An out-of-bounds read then faults.

/// A byte buffer of exactly `N` bytes. No `align(..)` attribute on purpose: an
/// aligned struct is padded to a multiple of its alignment and CBMC would
/// treat the padding as part of the object, so over-reads of up to 63 bytes
/// would go unnoticed (this was the case in the first version and was found
/// by a seeded change). CBMC gives every object a base address whose low bits
/// are zero (`ptr as usize` = object-id || offset), so the buffer start is
/// aligned for the alignment arithmetic of the code under test anyway; in
/// native replay `place()` relocates the bytes.
#[derive(Clone, Copy)]
#[repr(C)]
pub struct Buf<const N: usize>(pub [u8; N]);

#[cfg(kani)]
impl<const N: usize> Buf<N> {
    /// A buffer with unconstrained contents.
    pub fn any() -> Buf<N> {
        Buf(kani::any())
    }
}

/// Returns the slice to hand to the code under test.
#[cfg(not(verif_replay))]
#[inline(always)]
pub fn place(s: &[u8]) -> &[u8] {
    s
}

#[cfg(verif_replay)]
pub fn place(s: &[u8]) -> &[u8] {
    replay::place(s)
}

#[cfg(verif_replay)]
mod replay {
    extern "C" {
        fn mmap(
            addr: *mut u8,
            len: usize,
            prot: i32,
            flags: i32,
            fd: i32,
            off: i64,
        ) -> *mut u8;
        fn mprotect(addr: *mut u8, len: usize, prot: i32) -> i32;
    }
    const PAGE: usize = 4096;

    static CALLS: std::sync::atomic::AtomicUsize = std::sync::atomic::AtomicUsize::new(0);

    /// VERIF_PLACE = right (default): every slice ends at a PROT_NONE page;
    /// left: every slice starts right after one; mix1 / mix2: slices are
    /// alternately placed in the interior of a mapping and flush right
    /// (odd / even calls), for code whose behaviour depends on where the
    /// *other* operand lies.
    pub fn place(s: &[u8]) -> &'static [u8] {
        let mode = std::env::var("VERIF_PLACE").unwrap_or_default();
        let k = CALLS.fetch_add(1, std::sync::atomic::Ordering::Relaxed);
        let interior = (mode == "mix1" && k % 2 == 0) || (mode == "mix2" && k % 2 == 1);
        let left = mode == "left";
        let body = (s.len() + 64 + PAGE - 1) / PAGE * PAGE + PAGE;
        let total = body + 2 * PAGE;
        unsafe {
            // PROT_READ|PROT_WRITE = 3, MAP_PRIVATE|MAP_ANONYMOUS = 0x22
            let base = mmap(core::ptr::null_mut(), total, 3, 0x22, -1, 0);
            assert!(!base.is_null() && base as isize != -1, "mmap failed");
            assert_eq!(0, mprotect(base, PAGE, 0));
            assert_eq!(0, mprotect(base.add(PAGE + body), PAGE, 0));
            let p = if interior {
                base.add(PAGE + 64)
            } else if left {
                base.add(PAGE)
            } else {
                base.add(PAGE + body - s.len())
            };
            core::ptr::copy_nonoverlapping(s.as_ptr(), p, s.len());
            core::slice::from_raw_parts(p, s.len())
        }
    }
}
